"""C11 — privileged methods are callable only by their designated callers.

(i)  every exported method of every actor (enumerated from the dispatch table in the actor's invoke_method MIR, so an
     added method is picked up) is executed with symbolic params/state/caller until it returns or reaches the first
     effect after a successful caller validation: no path may complete Ok without having validated its caller;
(ii) for the privileged methods listed in DESIGNATED the accepted caller set must EQUAL the designated set
     (accepted => designated, and a designated caller is never rejected by the validation);
(iii) restrict_internal_api: methods below the exported range are refused to EVM / non-built-in callers, and every
     actor built with actor_dispatch! calls it first."""
import re
from .common import *

PROPERTY = 'C11'
ACTORS = ['account', 'cron', 'datacap', 'eam', 'ethaccount', 'evm', 'init', 'market', 'miner', 'multisig', 'paych',
          'placeholder', 'power', 'reward', 'system', 'verifreg']
CRATES = ['fil_actors_runtime'] + ['fil_actor_' + a for a in ACTORS if a != 'placeholder']

SYSTEM, INIT, REWARD_A, CRON, POWER_A, MARKET_A, VERIFREG, DATACAP, EAM = 0, 1, 2, 3, 4, 5, 6, 7, 10
T = ACTOR_TYPES


def is_id(rt, n):
    return b_and(rt.caller.proto == 0, rt.caller.key == n)


def is_type(rt, *names):
    return any_of([rt.caller_type == T[n] for n in names])


def governor(rt):
    # the datacap token's governor (the verified registry in the deployed network) is a state field
    g = AddrV(z3.Int('st.0.proto'), z3.Int('st.0.key'))
    return addr_eq(rt.caller, g)


# designated caller sets (from the actor specifications); key = (crate, function name)
DESIGNATED = {
    ('fil_actor_cron', 'epoch_tick'): lambda rt: is_id(rt, SYSTEM),
    ('fil_actor_cron', 'constructor'): lambda rt: is_id(rt, SYSTEM),
    ('fil_actor_reward', 'constructor'): lambda rt: is_id(rt, SYSTEM),
    ('fil_actor_reward', 'award_block_reward'): lambda rt: is_id(rt, SYSTEM),
    ('fil_actor_reward', 'update_network_kpi'): lambda rt: is_id(rt, POWER_A),
    ('fil_actor_power', 'constructor'): lambda rt: is_id(rt, SYSTEM),
    ('fil_actor_power', 'on_epoch_tick_end'): lambda rt: is_id(rt, CRON),
    ('fil_actor_power', 'update_claimed_power'): lambda rt: is_type(rt, 'Miner'),
    ('fil_actor_power', 'enroll_cron_event'): lambda rt: is_type(rt, 'Miner'),
    ('fil_actor_power', 'update_pledge_total'): lambda rt: is_type(rt, 'Miner'),
    ('fil_actor_market', 'constructor'): lambda rt: is_id(rt, SYSTEM),
    ('fil_actor_market', 'cron_tick'): lambda rt: is_id(rt, CRON),
    ('fil_actor_market', 'verify_deals_for_activation'): lambda rt: is_type(rt, 'Miner'),
    ('fil_actor_market', 'batch_activate_deals'): lambda rt: is_type(rt, 'Miner'),
    ('fil_actor_market', 'on_miner_sectors_terminate'): lambda rt: is_type(rt, 'Miner'),
    ('fil_actor_market', 'sector_content_changed'): lambda rt: is_type(rt, 'Miner'),
    ('fil_actor_miner', 'constructor'): lambda rt: is_id(rt, INIT),
    ('fil_actor_miner', 'apply_rewards'): lambda rt: is_id(rt, REWARD_A),
    ('fil_actor_miner', 'on_deferred_cron_event'): lambda rt: is_id(rt, POWER_A),
    ('fil_actor_init', 'constructor'): lambda rt: is_id(rt, SYSTEM),
    ('fil_actor_init', 'exec4'): lambda rt: is_id(rt, EAM),
    ('fil_actor_verifreg', 'constructor'): lambda rt: is_id(rt, SYSTEM),
    ('fil_actor_datacap', 'constructor'): lambda rt: is_id(rt, SYSTEM),
    ('fil_actor_datacap', 'mint'): lambda rt: governor(rt),
    ('fil_actor_datacap', 'destroy'): lambda rt: governor(rt),
    ('fil_actor_account', 'constructor'): lambda rt: is_id(rt, SYSTEM),
    ('fil_actor_system', 'constructor'): lambda rt: is_id(rt, SYSTEM),
    ('fil_actor_eam', 'constructor'): lambda rt: is_id(rt, SYSTEM),
    ('fil_actor_multisig', 'constructor'): lambda rt: is_id(rt, INIT),
    ('fil_actor_paych', 'constructor'): lambda rt: is_type(rt, 'Init'),
    ('fil_actor_evm', 'constructor'): lambda rt: is_id(rt, INIT),
    ('fil_actor_evm', 'resurrect'): lambda rt: is_id(rt, EAM),
    ('fil_actor_evm', 'invoke_contract_delegate'): lambda rt: addr_eq(rt.caller, rt.receiver),
    ('fil_actor_evm', 'storage_at'): lambda rt: is_id(rt, SYSTEM),
    ('fil_actor_eam', 'create'): lambda rt: is_type(rt, 'EVM'),
    ('fil_actor_eam', 'create2'): lambda rt: is_type(rt, 'EVM'),
    ('fil_actor_ethaccount', 'constructor'): lambda rt: is_id(rt, SYSTEM),
    ('fil_actor_multisig', 'add_signer'): lambda rt: addr_eq(rt.caller, rt.receiver),
    ('fil_actor_multisig', 'remove_signer'): lambda rt: addr_eq(rt.caller, rt.receiver),
    ('fil_actor_multisig', 'swap_signer'): lambda rt: addr_eq(rt.caller, rt.receiver),
    ('fil_actor_multisig', 'change_num_approvals_threshold'): lambda rt: addr_eq(rt.caller, rt.receiver),
    ('fil_actor_multisig', 'lock_balance'): lambda rt: addr_eq(rt.caller, rt.receiver),
}


def dispatch_targets(E, crate):
    """(invoke_method fn, [target fn item paths], calls restrict_internal_api first?)"""
    out = []
    for f in E.prog.by_last.get('invoke_method', []):
        if f.crate != crate:
            continue
        targets = []
        first_call = None
        for bb in sorted(f.blocks):
            t = f.blocks[bb].term
            if t and t[0] == 'call':
                if first_call is None:
                    first_call = t[2]
                for a in t[3]:
                    if a[0] == 'fn' and ('dispatch' in t[2] or 'Self::' in a[1] or True) and re.search(r'::[a-z_0-9]+(::<.*>)?$', a[1]) \
                            and 'dispatch' in t[2]:
                        targets.append(a[1])
                # raw targets: Self::func(rt, method, args) direct calls of actor fns with 3 args
                if 'dispatch' not in t[2] and re.search(r'(Actor|EvmContractActor|EamActor|EthAccountActor)::[a-z_0-9]+', t[2]) and len(t[3]) == 3:
                    targets.append(t[2])
        out.append((f, targets, first_call))
    return out


def run_method(crate, fn, designated):
    def run(E):
        rt, rtref = new_rt(E)
        rt.prefix_mode = True
        E.ctx.env['lazy_vec_lens'] = [0, 1]
        args = []
        for (loc, ty) in fn.args:
            t = ty.strip()
            if 'Runtime' in t or t in ('&RT', '&impl Runtime'):
                args.append(rtref)
            else:
                args.append(E.materialize(t, 'arg%d' % loc))
        return E.run_function(fn, args), rt
    return run


def props_method(crate, fname, designated):
    def props(E, res):
        env = res.ctx.env
        rt = env['rt']
        P = []
        validated = len(rt.validations) >= 1
        if res.kind == 'prefix':
            # the path was cut at its caller validation (accepted or rejected): nothing later can change the verdict
            if res.info == 'validated':
                if designated is not None:
                    P.append(('accepted caller is a designated caller', designated(rt)))
                else:
                    P.append(('caller validated', validated))
            elif designated is not None:
                P.append(('a designated caller is never rejected by the caller check', b_not(designated(rt))))
            return P
        if res.kind != 'return':
            return []          # panics are judged by the per-property obligations (C05/C18), not here
        v = res.value
        if is_ok(v) or not isinstance(v, EnumV):
            P.append(('every call that completes has validated its caller', validated))
            if designated is not None and validated:
                P.append(('accepted caller is a designated caller', designated(rt)))
            return P
        # Err exit
        if rt.rejected_by_validation and designated is not None:
            P.append(('a designated caller is never rejected by the caller check', b_not(designated(rt))))
        return P
    return props


def run_restrict(E):
    rt, rtref = new_rt(E)
    m = E.materialize('u64', 'method')
    E.ctx.env['method'] = m.v
    fn = find_fn(E, 'fil_actors_runtime', 'restrict_internal_api')
    return E.run_function(fn, [rtref, m]), rt


def props_restrict(E, res):
    env = res.ctx.env
    rt = env['rt']
    ctx = res.ctx
    if res.kind != 'return':
        return [('no panic (%s)' % str(res.info)[:60], False)]
    m = env['method']
    # caller classification as the runtime answered on this path
    code = rt.funcs.get('code', [])
    typ = rt.funcs.get('type', [])
    has_code = bool(code) and code[0][1].vname == 'Some'
    builtin = None
    if typ:
        tv = typ[0][1]
        builtin = tv.fields[('Some', 0)].tag if tv.vname == 'Some' else None
    internal = m < (1 << 24)
    if is_ok(res.value):
        ok_caller = (builtin is not None)
        return [('internal methods are reachable only from built-in, non-EVM callers',
                 z3.Implies(internal, z3.And(z3.BoolVal(bool(has_code and ok_caller)), (builtin != T['EVM']) if builtin is not None else z3.BoolVal(False))))]
    c = err_code(E, res.value)
    return [('refusal is USR_FORBIDDEN and only for internal method numbers', z3.And(c == 18, internal)),
            ('built-in non-EVM callers are never refused', z3.Not(z3.And(z3.BoolVal(bool(has_code and builtin is not None)), (builtin != T['EVM']) if builtin is not None else z3.BoolVal(False))))]


# exported methods whose code BEFORE the caller validation needs library models that are out of reach (RLE+ bit-field
# algebra, byte-level EVM argument marshalling, proof-size tables).  They are reported as uncovered cells, not claimed.
UNCOVERED = {
    'evm.handle_filecoin_method': 'byte-level ABI marshalling before invoke_contract validates',
}

UNRESTRICTED = {'fil_actor_evm', 'fil_actor_eam', 'fil_actor_ethaccount', 'fil_actor_placeholder'}


def build(tier, E=None):
    import json, os
    from mirsym import dump
    from mirsym.engine import Program
    # the dispatch tables are read from the MIR of the current tree
    prog = Program()
    for c in CRATES:
        mir, smir, _, _ = dump.dump_crate(c)
        prog.load(mir, c, smir)
    E0 = Engine(prog)
    O = [Obligation('runtime.restrict_internal_api', run_restrict, props_restrict,
                    descr='method < 2^24 from a caller without code / with non-built-in code / EVM => USR_FORBIDDEN; built-in callers and exported methods pass',
                    bounds='method number and caller classification symbolic', max_paths=2000)]
    structural = []
    for crate in CRATES[1:]:
        for (inv, targets, first) in dispatch_targets(E0, crate):
            restricted = first is not None and 'restrict_internal_api' in first
            structural.append((crate, len(targets), restricted))
            if crate not in UNRESTRICTED:
                O.append(Obligation('%s.invoke_method calls restrict_internal_api first' % crate.replace('fil_actor_', ''),
                                    (lambda E, r=restricted: (r, None)), (lambda E, res: [('dispatch starts with restrict_internal_api', res.value is True)]),
                                    descr='structural: the first call of invoke_method is restrict_internal_api', bounds='read from the MIR', max_paths=10, expect_ok=False))
            seen = set()
            for tpath in targets:
                c = parse_callee(tpath)
                name = c.idents[-1]
                if name in seen:
                    continue
                seen.add(name)
                fns = [f for f in E0.lookup_functions(c, 0) + [g for g in prog.by_last.get(name, []) if g.crate == crate and '{closure' not in g.name]
                       if f.crate == crate]
                fns = [f for f in fns if f.args and ('Runtime' in f.args[0][1] or f.args[0][1].strip() in ('&RT',))]
                uniq = {f.name: f for f in fns}
                if len(uniq) != 1:
                    continue
                fn = list(uniq.values())[0]
                des = DESIGNATED.get((crate, name))
                if '%s.%s' % (crate.replace('fil_actor_', ''), name) in UNCOVERED:
                    continue
                O.append(Obligation('%s.%s' % (crate.replace('fil_actor_', ''), name), run_method(crate, fn, des), props_method(crate, name, des),
                                    descr='caller validated before completion / first effect' + ('; accepted set = designated set' if des else ''),
                                    bounds='one call; params, state and caller symbolic; each path is cut at its caller validation (effects before it are executed)',
                                    max_paths=3000 if tier == 'quick' else 20000, expect_ok=False, wall_s=60 if tier == 'quick' else 300))
    # designated callers that depend on the state rather than on a validate_immediate_caller_* set: a multisig transaction may be
    # cancelled only by its proposer (approved[0]); the check is made by hand after accept_any (obligation shared with C12)
    from . import C12
    for n in ([2] if tier == 'quick' else [2, 3]):
        O.append(Obligation('multisig.cancel[signers=%d] (designated caller = proposer)' % n, C12.run_cancel(n), C12.props_cancel, scenario=C12.make_scenario('Cancel'),
                            descr='cancel: only approved[0] (a signer) may cancel; a rejected cancel commits nothing; txn removed; nothing else touched',
                            bounds='%d signers; one call' % n, max_paths=60000))
    return O
