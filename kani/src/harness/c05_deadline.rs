//! C05 – pure i64 deadline arithmetic (actors/miner/src/{deadline_info.rs,quantize.rs},
//! `new_deadline_info*` of deadlines.rs, `current_proving_period_start` /
//! `current_deadline_index` of lib.rs – the latter four functions are compiled from their
//! current source text through build.rs) with the `Policy::default()` window-post constants
//! taken from fil_actors_runtime::runtime::policy_constants.
//!
//! Epochs range over |e| <= 2^40 (chain epochs are 30 s: 2^40 epochs > 1 000 000 years) in the
//! thorough tier and |e| <= 2^32 (> 4000 years) in the quick tier for the harnesses that need
//! a multiplier/divider identity (SAT solving time grows steeply with the width), so no i64
//! overflow is possible; multiplication/division is always by a policy CONSTANT.
//!
//! Congruences are stated as `(x - (seed % unit)) % unit == 0`, `%` being Rust's truncating
//! remainder (x % m is congruent to x modulo m by definition).
use crate::miner_shim::*;
use crate::{DeadlineInfo, QuantSpec};

const E: i64 = 1 << 40;

fn any_epoch() -> i64 {
    let e: i64 = kani::any();
    kani::assume(e >= -E && e <= E);
    e
}

fn epoch_within(bits: u32) -> i64 {
    let e: i64 = kani::any();
    kani::assume(e >= -(1i64 << bits) && e <= (1i64 << bits));
    e
}

/// Shape of DeadlineInfo::new for a valid index: windows tile the proving period,
/// [open, close) has the challenge-window length, challenge/fault cutoffs precede open.
#[kani::proof]
#[kani::unwind(2)]
fn c05_deadline_new_shape() {
    let p = Policy::default();
    let pps = any_epoch();
    let cur = any_epoch();
    let idx: u64 = kani::any();
    kani::assume(idx < p.wpost_period_deadlines);
    let di = new_deadline_info(&p, pps, idx, cur);
    assert!(p.wpost_challenge_window * p.wpost_period_deadlines as i64 == p.wpost_proving_period);
    assert!(di.period_start == pps && di.index == idx && di.current_epoch == cur);
    assert!(di.open == pps + idx as i64 * p.wpost_challenge_window);
    assert!(di.close == di.open + p.wpost_challenge_window);
    assert!(di.open >= pps && di.close <= pps + p.wpost_proving_period);
    assert!(di.challenge == di.open - p.wpost_challenge_lookback && di.challenge < di.open);
    assert!(di.fault_cutoff == di.open - p.fault_declaration_cutoff && di.fault_cutoff < di.open);
    assert!(di.last() == di.close - 1 && di.next_open() == di.close);
    assert!(di.period_end() + 1 == di.next_period_start());
    assert!(di.is_open() == (cur >= di.open && cur < di.close));
    assert!(di.has_elapsed() == (cur >= di.close));
    assert!(di.period_started() == (cur >= pps));
    assert!(di.period_elapsed() == (cur >= pps + p.wpost_proving_period));
    assert!(di.fault_cutoff_passed() == (cur >= di.fault_cutoff));
    kani::cover!(idx == 47 && di.is_open());
    kani::cover!(di.has_elapsed() && pps < 0);
}

/// next_not_elapsed(): the result has not elapsed, is the same deadline index, its period
/// start differs by a non-negative multiple of the proving period, and it is the EARLIEST such
/// instance (either unchanged, or the instance one period earlier had already elapsed).
fn next_not_elapsed(bits: u32) {
    let p = Policy::default();
    let pps = epoch_within(bits);
    let cur = epoch_within(bits);
    let idx: u64 = kani::any();
    kani::assume(idx < p.wpost_period_deadlines);
    let di = new_deadline_info(&p, pps, idx, cur);
    let n = di.next_not_elapsed();
    assert!(!n.has_elapsed());
    assert!(n.index == idx && n.current_epoch == cur);
    let delta = n.period_start - pps;
    assert!(delta >= 0 && delta % p.wpost_proving_period == 0);
    assert!(n.open == n.period_start + idx as i64 * p.wpost_challenge_window);
    assert!(n.close == n.open + p.wpost_challenge_window);
    if di.has_elapsed() {
        assert!(delta > 0);
        // minimality: the same deadline one period earlier is already closed at `cur`
        assert!(n.close - p.wpost_proving_period <= cur);
    } else {
        assert!(delta == 0);
    }
    kani::cover!(delta == 3 * p.wpost_proving_period);
    kani::cover!(delta == 0 && di.is_open());
    kani::cover!(di.has_elapsed() && cur == di.close);
}

#[kani::proof]
#[kani::unwind(2)]
fn c05_deadline_next_not_elapsed() {
    next_not_elapsed(32)
}

#[kani::proof]
#[kani::unwind(2)]
fn c05_deadline_next_not_elapsed_2p40() {
    next_not_elapsed(40)
}

/// Same for an out-of-range index (index >= WPoStPeriodDeadlines gives the empty window at
/// the end of the period): still total and not elapsed afterwards.
fn next_not_elapsed_oob_index(bits: u32) {
    let p = Policy::default();
    let pps = epoch_within(bits);
    let cur = epoch_within(bits);
    let idx: u64 = kani::any();
    kani::assume(idx >= p.wpost_period_deadlines);
    let di = new_deadline_info(&p, pps, idx, cur);
    assert!(di.open == pps + p.wpost_proving_period && di.close == di.open);
    let n = di.next_not_elapsed();
    assert!(!n.has_elapsed());
    assert!((n.period_start - pps) % p.wpost_proving_period == 0 && n.period_start >= pps);
    kani::cover!(n.period_start > pps);
}

#[kani::proof]
#[kani::unwind(2)]
fn c05_deadline_next_not_elapsed_oob_index() {
    next_not_elapsed_oob_index(32)
}

#[kani::proof]
#[kani::unwind(2)]
fn c05_deadline_next_not_elapsed_oob_index_2p40() {
    next_not_elapsed_oob_index(40)
}

/// new_deadline_info_from_offset_and_epoch(seed, epoch): `epoch` lies inside [open, close) of
/// the returned deadline and inside its proving period, and the index is valid.
fn from_offset_bounds(bits: u32) {
    let p = Policy::default();
    let seed = epoch_within(bits);
    let cur = epoch_within(bits);
    let di = new_deadline_info_from_offset_and_epoch(&p, seed, cur);
    assert!(di.current_epoch == cur);
    assert!(di.index < p.wpost_period_deadlines);
    assert!(di.period_start <= cur && cur < di.period_start + p.wpost_proving_period);
    assert!(di.open <= cur && cur < di.close);
    assert!(di.is_open() && !di.has_elapsed() && di.period_started() && !di.period_elapsed());
    kani::cover!(cur < 0 && di.index == 47);
    kani::cover!(cur > 0 && seed > cur && di.index == 0);
}

/// ... and its period start is congruent to the seed modulo the proving period.
fn from_offset_congruence(bits: u32) {
    let p = Policy::default();
    let seed = epoch_within(bits);
    let cur = epoch_within(bits);
    let di = new_deadline_info_from_offset_and_epoch(&p, seed, cur);
    let o = seed % p.wpost_proving_period;
    assert!((di.period_start - o) % p.wpost_proving_period == 0);
    kani::cover!(cur < 0 && seed > 5000);
}

#[kani::proof]
#[kani::unwind(2)]
fn c05_deadline_from_offset_bounds() {
    from_offset_bounds(32)
}

#[kani::proof]
#[kani::unwind(2)]
fn c05_deadline_from_offset_bounds_2p40() {
    from_offset_bounds(40)
}

#[kani::proof]
#[kani::unwind(2)]
fn c05_deadline_from_offset_congruence() {
    from_offset_congruence(32)
}

#[kani::proof]
#[kani::unwind(2)]
fn c05_deadline_from_offset_congruence_2p40() {
    from_offset_congruence(40)
}

/// current_proving_period_start(epoch, offset) for epoch >= 0 and 0 <= offset < proving
/// period (offset comes from `assign_proving_period_offset`, a value mod the period): the
/// result is the start of the period containing `epoch`, congruent to offset;
/// current_deadline_index then yields the deadline that is open at `epoch`.
/// (For NEGATIVE epochs the function can return a start > epoch; epochs are >= 0 on chain –
/// outside the claim.)
fn current_period_start(bits: u32) {
    let p = Policy::default();
    let cur: i64 = kani::any();
    kani::assume(cur >= 0 && cur <= (1i64 << bits));
    let offset: i64 = kani::any();
    kani::assume(offset >= 0 && offset < p.wpost_proving_period);
    let start = current_proving_period_start(&p, cur, offset);
    assert!(start <= cur && cur < start + p.wpost_proving_period);
    assert!((start - offset) % p.wpost_proving_period == 0);
    let idx = current_deadline_index(&p, cur, start);
    assert!(idx < p.wpost_period_deadlines);
    let di = new_deadline_info(&p, start, idx, cur);
    assert!(di.is_open());
    kani::cover!(start < 0);
    kani::cover!(idx == 47 && cur > 1_000_000);
}

#[kani::proof]
#[kani::unwind(2)]
fn c05_deadline_current_period_start() {
    current_period_start(32)
}

#[kani::proof]
#[kani::unwind(2)]
fn c05_deadline_current_period_start_2p40() {
    current_period_start(40)
}

// QuantSpec::quantize_up / quantize_down.  One property group per harness: every assertion
// needs its own multiplier/divider identity and CBMC solves them one after the other.

/// e <= quantize_up(e) < e + unit.
fn quant_up_bounds(unit: i64, bits: u32) {
    let offset = epoch_within(bits);
    let e = epoch_within(bits);
    let up = QuantSpec { unit, offset }.quantize_up(e);
    assert!(up >= e);
    assert!(up < e + unit);
    kani::cover!(e < offset && up != e && unit > 1);
    kani::cover!(e > offset && up == e);
    kani::cover!(e < 0 && offset < 0 && (up != e || unit == 1));
}

/// e - unit < quantize_down(e) <= e.
fn quant_down_bounds(unit: i64, bits: u32) {
    let offset = epoch_within(bits);
    let e = epoch_within(bits);
    let down = QuantSpec { unit, offset }.quantize_down(e);
    assert!(down <= e);
    assert!(down > e - unit);
    kani::cover!(e < offset && down != e && unit > 1);
    kani::cover!(e < 0 && offset < 0 && down == e);
}

/// quantize_up(e) is congruent to offset (mod unit).
fn quant_up_congruence(unit: i64, bits: u32) {
    let offset = epoch_within(bits);
    let e = epoch_within(bits);
    let up = QuantSpec { unit, offset }.quantize_up(e);
    let o = offset % unit;
    assert!((up - o) % unit == 0);
    kani::cover!(e < offset && up != e && offset < 0);
}

/// quantize_down(e) is congruent to offset (mod unit).
fn quant_down_congruence(unit: i64, bits: u32) {
    let offset = epoch_within(bits);
    let e = epoch_within(bits);
    let down = QuantSpec { unit, offset }.quantize_down(e);
    let o = offset % unit;
    assert!((down - o) % unit == 0);
    kani::cover!(e < offset && down != e && offset < 0);
}

macro_rules! quant_harness {
    ($name:ident, $f:ident, $bits:literal) => {
        /// unit = WPoStProvingPeriod (the unit used by DeadlineInfo::quant_spec and
        /// new_deadline_info_from_offset_and_epoch).
        #[kani::proof]
        #[kani::unwind(2)]
        fn $name() {
            $f(Policy::default().wpost_proving_period, $bits)
        }
    };
}
quant_harness!(c05_quantize_up_bounds, quant_up_bounds, 32);
quant_harness!(c05_quantize_up_bounds_2p40, quant_up_bounds, 40);
quant_harness!(c05_quantize_down_bounds, quant_down_bounds, 32);
quant_harness!(c05_quantize_down_bounds_2p40, quant_down_bounds, 40);
quant_harness!(c05_quantize_up_congruence, quant_up_congruence, 32);
quant_harness!(c05_quantize_up_congruence_2p40, quant_up_congruence, 40);
quant_harness!(c05_quantize_down_congruence, quant_down_congruence, 32);
quant_harness!(c05_quantize_down_congruence_2p40, quant_down_congruence, 40);

/// NO_QUANTIZATION (unit 1, offset 0) is the identity.
#[kani::proof]
#[kani::unwind(2)]
fn c05_quantize_unit_1() {
    let e = any_epoch();
    let q = crate::quantize::NO_QUANTIZATION;
    assert!(q.unit == 1 && q.offset == 0);
    assert!(q.quantize_up(e) == e);
    assert!(q.quantize_down(e) == e);
    kani::cover!(e < -5);
}

/// Bounds of quantize_up with 12 h = 1440 epochs (reward vesting quantisation unit).
#[kani::proof]
#[kani::unwind(2)]
fn c05_quantize_unit_1440() {
    quant_up_bounds(1440, 32)
}

/// DeadlineInfo::quant_spec(): unit = proving period, offset = last epoch of the window
/// (quantize_* itself is covered for arbitrary offsets by the harnesses above).
#[kani::proof]
#[kani::unwind(2)]
fn c05_deadline_quant_spec() {
    let p = Policy::default();
    let pps = any_epoch();
    let idx: u64 = kani::any();
    kani::assume(idx < p.wpost_period_deadlines);
    let cur = any_epoch();
    let di = new_deadline_info(&p, pps, idx, cur);
    let q = di.quant_spec();
    assert!(q.unit == p.wpost_proving_period && q.offset == di.last());
    assert!(q.offset == pps + (idx as i64 + 1) * p.wpost_challenge_window - 1);
    kani::cover!(idx == 3 && pps == 100);
}
