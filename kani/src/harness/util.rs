//! Shared helpers for the harnesses: symbolic U256 construction, limb-wise
//! comparison and bit-level views used by the independent oracles.
use fil_actors_evm_shared::uints::U256;

/// Fully symbolic 256-bit word: four unconstrained u64 limbs, limb 0 = least significant.
#[inline(always)]
pub fn any_u256() -> U256 {
    U256([kani::any(), kani::any(), kani::any(), kani::any()])
}

/// Limb-wise equality (`[u64;4] == [u64;4]` compiles to a 32-byte memcmp loop).
#[inline(always)]
pub fn same(a: &U256, l: [u64; 4]) -> bool {
    a.0[0] == l[0] && a.0[1] == l[1] && a.0[2] == l[2] && a.0[3] == l[3]
}

/// Bit `i` (0 = least significant) of a little-endian limb array; 0 for i >= 256.
#[inline(always)]
pub fn bit(l: &[u64; 4], i: usize) -> bool {
    if i >= 256 { false } else { (l[i / 64] >> (i % 64)) & 1 == 1 }
}
