//! C17 – the data-copy helpers of interpreter/instructions/memory.rs: `copy_to_memory`
//! (CALLDATACOPY / CODECOPY / EXTCODECOPY / RETURNDATACOPY) and `copy_within_memory` (MCOPY).
//! The functions are the VERBATIM current /repo text (build.rs -> memory_shim.rs) running on the
//! real `Memory`, `U256` and `ActorError`.
//!
//! Yellow Paper, CALLDATACOPY (0x37), CODECOPY (0x39), EXTCODECOPY (0x3c):
//!     for all i in {0 .. µs[2]-1}:  µ'm[µs[0] + i] = d[µs[1] + i]  if µs[1] + i < ||d||,  else 0
//! i.e. EVERY byte of the destination window is written; source positions at or beyond the end
//! of the data read as zero, whatever the destination held before.  µ'i = M(µi, µs[0], µs[2])
//! (memory grows to the word-aligned end of the window, and not at all for a zero-length window).
//! `zero_fill = false` is the FEVM-internal variant (call output copy) that leaves the tail alone.
//!
//! EIP-5656 MCOPY: "copying takes place as if an intermediate buffer was used, allowing the
//! destination and source to overlap"; memory is expanded to cover both windows.
//!
//! All sizes (memory pre-size, window offset/length, data length, SOURCE OFFSET) are concrete
//! per case, as in c18_memory_grow: a symbolic source offset makes `copy_size` symbolic and with
//! it the `copy_from_slice` / `fill` lengths on the 4 KiB page object of `Memory` (11.7 GB, CBMC
//! abort).  Symbolic: the old memory contents, the data bytes, `zero_fill` and the position that
//! is read back (so every byte of the memory is checked).  At most 4-5 cases per harness: CBMC
//! time grows faster than linearly with the number of `Memory` objects in one harness
//! (1 / 4 / 8 cases: 27 / 67 / 316 CPU-s; 16 cases: > 900 s).
use super::util::any_u256;
use crate::interpreter::instructions::memory::{copy_to_memory, copy_within_memory};
use crate::interpreter::memory::Memory;
use fil_actors_evm_shared::uints::U256;

const PRE_MAX: usize = 64;
const DATA_MAX: usize = 4;

fn ceil32(n: usize) -> usize {
    (n + 31) / 32 * 32
}

/// Memory of `pre` bytes (0, 32 or 64) whose contents are the symbolic `init[..pre]`.
fn mem_with(pre: usize, init: &[u8; PRE_MAX]) -> Memory {
    let mut m = Memory::default();
    m.grow(pre);
    assert!(m.len() == pre);
    let mut i = 0;
    while i < pre {
        m[i] = init[i];
        i += 1;
    }
    m
}

/// What the symbolic read-back position of a case looked at (for the cover witnesses, which
/// have to live in the harness functions: a `kani::cover!` inside a shared helper would have to
/// be satisfiable in EVERY harness that calls the helper).
#[derive(Clone, Copy)]
struct Wit {
    /// read position inside the memory / inside the destination window
    read: bool,
    in_window: bool,
    /// the source position of that byte lies inside the data
    in_range: bool,
    zero_fill: bool,
    /// the byte at the read position held 0xAA before the call
    dirty: bool,
    /// read position is in memory that did not exist before the call
    fresh: bool,
    /// index inside the window / byte read back / byte 0 of the data
    i: usize,
    got: u8,
}

/// 256-bit source offsets that do not fit 64 bits (`min` must not look at the low limb only).
fn big(k: usize) -> U256 {
    match k {
        0 => U256([0, 1, 0, 0]),       // 2^64: low limb 0
        1 => U256([1, 0, 0, 1 << 63]), // 2^255 + 1: low limb 1
        _ => U256([u64::MAX; 4]),      // 2^256 - 1
    }
}

/// One concrete geometry (memory pre-size, window, data length, source offset); memory
/// contents, data bytes, `zero_fill` and the position read back are symbolic.
fn copy_to_case(pre: usize, dest_off: usize, dest_size: usize, data_len: usize, src: U256) -> Wit {
    let init: [u8; PRE_MAX] = kani::any();
    let mut mem = mem_with(pre, &init);
    let data: [u8; DATA_MAX] = kani::any();
    let zero_fill: bool = kani::any();

    let r = copy_to_memory(
        &mut mem,
        U256::from(dest_off as u64),
        U256::from(dest_size as u64),
        src,
        &data[..data_len],
        zero_fill,
    );
    assert!(r.is_ok());

    let end = dest_off + dest_size;
    let want_len = if dest_size == 0 || ceil32(end) <= pre { pre } else { ceil32(end) };
    assert!(mem.len() == want_len);

    let mut w = Wit { read: false, in_window: false, in_range: false, zero_fill, dirty: false, fresh: false, i: 0, got: 0 };
    let q: usize = kani::any();
    if q < want_len {
        let got = mem[q];
        let old = if q < pre { init[q] } else { 0 };
        w.read = true;
        w.got = got;
        w.dirty = q < pre && init[q] == 0xAA;
        w.fresh = q >= pre;
        if dest_off <= q && q < end {
            let i = (q - dest_off) as u64;
            // µs[1] + i < ||d|| over the integers (no wrap-around of the 256-bit offset)
            let small = src.0[1] == 0 && src.0[2] == 0 && src.0[3] == 0 && src.0[0] < data_len as u64;
            let in_range = small && src.0[0] + i < data_len as u64;
            if in_range {
                assert!(got == data[(src.0[0] + i) as usize]);
            } else if zero_fill {
                assert!(got == 0);
            } else {
                assert!(got == old);
            }
            w.in_window = true;
            w.in_range = in_range;
            w.i = i as usize;
        } else {
            assert!(got == old);
        }
    }
    w
}

/// dest_size == 0: nothing changes and nothing grows, for ANY 256-bit destination / source offset.
fn copy_to_empty_case(pre: usize, data_len: usize) -> (bool, U256) {
    let init: [u8; PRE_MAX] = kani::any();
    let mut mem = mem_with(pre, &init);
    let data: [u8; DATA_MAX] = kani::any();
    let dest = any_u256();
    let src = any_u256();
    let zero_fill: bool = kani::any();
    let r = copy_to_memory(&mut mem, dest, U256::zero(), src, &data[..data_len], zero_fill);
    assert!(r.is_ok());
    assert!(mem.len() == pre);
    let q: usize = kani::any();
    let mut dirty = false;
    if q < pre {
        assert!(mem[q] == init[q]);
        dirty = init[q] == 0xAA && zero_fill;
    }
    (dirty, dest)
}

/// Window (3, 6) inside 32 dirty bytes, 4 bytes of data: source window partially in range,
/// starting exactly at the end of the data, 2^64 beyond it (low limb 0), and empty data.
#[kani::proof]
#[kani::unwind(40)]
fn c17_copy_to_memory() {
    let w = copy_to_case(32, 3, 6, 4, U256::from(2u64)); // 2 bytes copied, 4 zero-filled
    kani::cover!(w.in_window && w.in_range && w.i == 1 && w.got == 0x55);
    kani::cover!(w.in_window && !w.in_range && w.zero_fill && w.dirty && w.i == 2);
    kani::cover!(w.in_window && !w.in_range && !w.zero_fill && w.dirty && w.got == 0xAA);
    kani::cover!(w.read && !w.in_window && w.dirty);

    let w = copy_to_case(32, 3, 6, 4, U256::from(4u64)); // nothing in range
    kani::cover!(w.in_window && w.zero_fill && w.dirty && w.i == 0);
    kani::cover!(w.in_window && w.zero_fill && w.dirty && w.i == 5);

    let w = copy_to_case(32, 3, 6, 4, big(0));
    kani::cover!(w.in_window && w.zero_fill && w.dirty && w.i == 0);

    let w = copy_to_case(32, 3, 6, 0, U256::zero()); // empty data
    kani::cover!(w.in_window && w.zero_fill && w.dirty && w.i == 3);
}

/// Windows that straddle the end of memory or lie beyond it (growth 32 -> 64), and a window that
/// is entirely in range (nothing to fill).
#[kani::proof]
#[kani::unwind(40)]
fn c17_copy_to_memory_grow() {
    let w = copy_to_case(32, 28, 8, 4, U256::from(1u64)); // 3 copied, 5 filled, 4 of them fresh
    kani::cover!(w.in_window && w.in_range && w.i == 2 && w.got == 0x55);
    kani::cover!(w.in_window && !w.in_range && w.dirty && w.zero_fill && w.i == 3);
    kani::cover!(w.in_window && w.fresh);
    kani::cover!(w.read && !w.in_window && w.fresh);

    let w = copy_to_case(32, 28, 8, 4, U256::from(9u64));
    kani::cover!(w.in_window && w.dirty && w.zero_fill && w.i == 0);

    let w = copy_to_case(32, 40, 3, 4, U256::from(3u64)); // 1 copied into fresh memory
    kani::cover!(w.in_window && w.in_range && w.fresh && w.got == 0x55);
    kani::cover!(w.read && !w.in_window && w.dirty);

    let w = copy_to_case(32, 1, 2, 4, U256::from(1u64)); // fully in range
    kani::cover!(w.in_window && w.in_range && w.i == 1 && w.zero_fill && w.got == 0x55);
    kani::cover!(w.read && !w.in_window && w.dirty);
}

/// dest_size == 0 with ANY 256-bit destination and source offset (dirty and empty memory), and
/// the two remaining 256-bit source offsets on the (3, 6) window.
#[kani::proof]
#[kani::unwind(40)]
fn c17_copy_to_memory_empty() {
    let (dirty, dest) = copy_to_empty_case(32, 4);
    kani::cover!(dirty && dest.0[3] != 0);
    kani::cover!(dirty && dest.0[0] == 3 && dest.0[1] == 0 && dest.0[2] == 0 && dest.0[3] == 0);
    let (_, dest) = copy_to_empty_case(0, 0);
    kani::cover!(dest.0[0] == 0 && dest.0[1] == 0 && dest.0[2] == 0 && dest.0[3] == 0);

    let w = copy_to_case(32, 3, 6, 4, big(1));
    kani::cover!(w.in_window && w.zero_fill && w.dirty && w.i == 0);
    let w = copy_to_case(32, 3, 6, 4, big(2));
    kani::cover!(w.in_window && w.zero_fill && w.dirty && w.i == 1);
}

/// Thorough tier: empty memory before the call.
#[kani::proof]
#[kani::unwind(70)]
fn c17_copy_to_memory_pre0() {
    let w = copy_to_case(0, 0, 8, 4, U256::zero()); // 4 copied, 4 filled
    kani::cover!(w.in_window && w.in_range && w.i == 3 && w.got == 0x55);
    kani::cover!(w.in_window && !w.in_range && w.i == 4);
    let w = copy_to_case(0, 31, 2, 4, U256::from(3u64)); // crosses the word boundary: 64 bytes
    kani::cover!(w.in_window && w.in_range && w.got == 0x55);
    kani::cover!(w.read && !w.in_window && w.fresh);
    let w = copy_to_case(0, 5, 1, 0, U256::zero());
    kani::cover!(w.in_window && !w.zero_fill);
    let w = copy_to_case(0, 33, 7, 4, U256::from(6u64));
    kani::cover!(w.in_window && w.i == 6);
}

/// Thorough tier: 64 dirty bytes before the call.
#[kani::proof]
#[kani::unwind(70)]
fn c17_copy_to_memory_pre64() {
    let w = copy_to_case(64, 60, 4, 4, U256::from(1u64)); // window ends exactly at the end: no growth
    kani::cover!(w.in_window && !w.in_range && w.zero_fill && w.dirty && w.i == 3);
    kani::cover!(w.in_window && w.in_range && w.i == 2 && w.got == 0x55);
    let w = copy_to_case(64, 27, 5, 3, big(1));
    kani::cover!(w.in_window && w.zero_fill && w.dirty && w.i == 4);
    let w = copy_to_case(64, 62, 4, 4, U256::from(2u64)); // growth 64 -> 96
    kani::cover!(w.in_window && w.fresh && !w.in_range);
    kani::cover!(w.in_window && w.dirty && w.in_range && w.got == 0x55);
    let w = copy_to_case(64, 0, 8, 2, U256::from(1u64));
    kani::cover!(w.in_window && w.zero_fill && w.dirty && w.i == 1);
    kani::cover!(w.read && !w.in_window && w.dirty);
}

/// What the read-back position of an MCOPY case looked at.
#[derive(Clone, Copy)]
struct MWit {
    read: bool,
    in_dest: bool,
    /// the position also lies inside the SOURCE window (overlap)
    in_src: bool,
    /// source byte came from beyond the old end of memory (reads as zero)
    src_fresh: bool,
    fresh: bool,
    moved: bool,
}

/// MCOPY through `copy_within_memory(memory, dest, src, size)`, one concrete geometry.
fn mcopy_case(pre: usize, dest: usize, src: usize, size: usize) -> MWit {
    let init: [u8; PRE_MAX] = kani::any();
    let mut mem = mem_with(pre, &init);
    let r = copy_within_memory(
        &mut mem,
        U256::from(dest as u64),
        U256::from(src as u64),
        U256::from(size as u64),
    );
    assert!(r.is_ok());
    let need = if ceil32(src + size) > ceil32(dest + size) { ceil32(src + size) } else { ceil32(dest + size) };
    let want_len = if need > pre { need } else { pre };
    assert!(mem.len() == want_len);

    let mut w = MWit { read: false, in_dest: false, in_src: false, src_fresh: false, fresh: false, moved: false };
    let q: usize = kani::any();
    if q < want_len {
        // reference: the byte at q comes out of an intermediate buffer filled from the OLD memory
        // (zero beyond its old end); everything outside the destination window is unchanged
        let in_dest = dest <= q && q < dest + size;
        let from = if in_dest { src + (q - dest) } else { q };
        let want = if from < pre { init[from] } else { 0 };
        let got = mem[q];
        assert!(got == want);
        w.read = true;
        w.in_dest = in_dest;
        w.in_src = src <= q && q < src + size;
        w.src_fresh = from >= pre;
        w.fresh = q >= pre;
        // the byte really changed: 0xAA arrived where 0x55 (or fresh zero) was
        w.moved = got == 0xAA && (q >= pre || init[q] == 0x55);
    }
    w
}

/// Overlapping windows in both directions and windows that make memory grow (destination /
/// source straddling the old end).  size >= 1: the size == 0 guard is in `mcopy` itself.
#[kani::proof]
#[kani::unwind(40)]
fn c17_copy_within_memory() {
    let w = mcopy_case(32, 0, 1, 8); // overlap, dest < src
    kani::cover!(w.in_dest && w.in_src && w.moved);
    kani::cover!(w.read && !w.in_dest && w.in_src);
    let w = mcopy_case(32, 1, 0, 8); // overlap, dest > src
    kani::cover!(w.in_dest && w.in_src && w.moved);
    kani::cover!(w.read && !w.in_dest && w.in_src);
    let w = mcopy_case(32, 30, 0, 4); // destination straddles the end: growth to 64
    kani::cover!(w.in_dest && w.fresh && w.moved);
    kani::cover!(w.read && !w.in_dest && w.fresh);
    let w = mcopy_case(32, 0, 28, 8); // source straddles the end: growth, zeros copied in
    kani::cover!(w.in_dest && w.src_fresh);
    kani::cover!(w.in_dest && !w.src_fresh && w.moved);
}

/// Thorough tier: identical, disjoint, both-beyond-the-end windows and empty memory.
#[kani::proof]
#[kani::unwind(40)]
fn c17_copy_within_memory_more() {
    let w = mcopy_case(32, 4, 4, 5); // identical windows
    kani::cover!(w.in_dest && w.in_src);
    let w = mcopy_case(32, 20, 2, 6); // disjoint
    kani::cover!(w.in_dest && w.moved);
    kani::cover!(w.read && !w.in_dest && w.in_src);
    let w = mcopy_case(32, 36, 30, 5); // source straddles, destination beyond the end
    kani::cover!(w.in_dest && w.fresh && w.moved);
    kani::cover!(w.in_dest && w.src_fresh);
    let w = mcopy_case(0, 3, 0, 2); // empty memory
    kani::cover!(w.in_dest && w.fresh);
}
