"""Parser for rustc's textual MIR (`-Zunpretty=mir`, nightly 1.97).

The dump is the compiler's own lowering of /repo's current source; this module turns it
into Function objects (locals with types, basic blocks, statements, terminators) that the
symbolic executor in engine.py walks.  Types are kept as strings (MIR does not contain type
definitions); field projections carry the field's type, which is what the executor uses to
materialise symbolic inputs lazily.
"""
import re

# ---------------------------------------------------------------------------------------
# small lexical helpers

OPEN = {'(': ')', '[': ']', '{': '}', '<': '>'}
CLOSE = {v: k for k, v in OPEN.items()}


def skip_string(s, i):
    """s[i] == '"' ; return index just after the closing quote (handles escapes)."""
    assert s[i] == '"'
    i += 1
    n = len(s)
    while i < n:
        c = s[i]
        if c == '\\':
            i += 2
            continue
        if c == '"':
            return i + 1
        i += 1
    return n


def match_bracket(s, i):
    """s[i] is an opening bracket; return index of the matching close.  Angle brackets are
    only balanced when they look like generics ('->' and '=>' are ignored; comparison
    operators do not occur in MIR text)."""
    stack = []
    n = len(s)
    while i < n:
        c = s[i]
        if c == '"':
            i = skip_string(s, i)
            continue
        if c == "'" and i + 2 < n and s[i + 2] == "'" :  # char literal like 'a'
            i += 3
            continue
        if c in '([{':
            stack.append(c)
        elif c == '<':
            stack.append(c)
        elif c in ')]}':
            # pop until matching (tolerate stray '<')
            while stack and stack[-1] == '<' and c != '>':
                stack.pop()
            if not stack:
                return i
            stack.pop()
            if not stack:
                return i
        elif c == '>':
            if i > 0 and s[i - 1] in '-=':
                i += 1
                continue
            if stack and stack[-1] == '<':
                stack.pop()
                if not stack:
                    return i
        i += 1
    raise ValueError('unbalanced: ' + s[:200])


def split_top(s, sep=','):
    """split s at top-level separators (not inside brackets / strings)."""
    out = []
    depth = 0
    cur = []
    i = 0
    n = len(s)
    while i < n:
        c = s[i]
        if c == '"':
            j = skip_string(s, i)
            cur.append(s[i:j])
            i = j
            continue
        if c in '([{':
            depth += 1
        elif c in ')]}':
            depth -= 1
        elif c == '<':
            depth += 1
        elif c == '>':
            if not (i > 0 and s[i - 1] in '-='):
                depth -= 1
        if depth == 0 and s.startswith(sep, i):
            out.append(''.join(cur).strip())
            cur = []
            i += len(sep)
            continue
        cur.append(c)
        i += 1
    last = ''.join(cur).strip()
    if last or out:
        out.append(last)
    return out


def split_path(p):
    """split a rust path at top-level '::'."""
    return split_top(p, '::')


# ---------------------------------------------------------------------------------------
# AST

class Place:
    __slots__ = ('local', 'proj')

    def __init__(self, local, proj=()):
        self.local = local
        self.proj = tuple(proj)

    def __repr__(self):
        return 'P(_%d%s)' % (self.local, ''.join('.' + str(p) for p in self.proj))


class Function:
    def __init__(self, name, crate):
        self.name = name          # as printed after 'fn ' / 'const '
        self.crate = crate
        self.kind = 'fn'          # fn | const | static | promoted
        self.args = []            # [(local, type)]
        self.ret = None
        self.locals = {}          # local -> type string
        self.blocks = {}          # int -> Block
        self.promoted = {}        # k -> Function
        self.const_value = None   # for one-line consts: operand text
        self.line = 0
        self.nlines = 0
        self.impl_loc = None      # (file, line, col, line2, col2) of innermost <impl at ...>
        self.closure_loc = None   # location string of the closure type of _1, if closure body
        self.text_hash = None

    def __repr__(self):
        return 'Function(%s)' % self.name


class Block:
    __slots__ = ('stmts', 'term', 'cleanup')

    def __init__(self):
        self.stmts = []
        self.term = None
        self.cleanup = False


# ---------------------------------------------------------------------------------------
# expression parsing

BINOPS = {'Add', 'Sub', 'Mul', 'Div', 'Rem', 'BitXor', 'BitAnd', 'BitOr', 'Shl', 'Shr', 'Eq', 'Lt', 'Le',
          'Ne', 'Ge', 'Gt', 'Cmp', 'Offset', 'AddWithOverflow', 'SubWithOverflow', 'MulWithOverflow',
          'AddUnchecked', 'SubUnchecked', 'MulUnchecked', 'ShlUnchecked', 'ShrUnchecked'}
UNOPS = {'Not', 'Neg', 'PtrMetadata'}
OTHER_FN_RVALUES = {'discriminant', 'Len', 'CopyForDeref', 'ShallowInitBox', 'SizeOf', 'AlignOf', 'UbChecks',
                    'ContractChecks', 'OffsetOf'}


class ParseError(Exception):
    pass


def parse_place(s):
    s = s.strip()
    p, i = _place(s, 0)
    if s[i:].strip():
        raise ParseError('trailing in place: %r' % s)
    return p


def _place(s, i):
    """parse a place starting at s[i]; returns (Place, next index)."""
    n = len(s)
    while i < n and s[i] == ' ':
        i += 1
    if s[i] == '_':
        m = re.compile(r'_(\d+)').match(s, i)
        if not m:
            raise ParseError('bad local at %r' % s[i:i + 30])
        pl = Place(int(m.group(1)))
        i = m.end()
    elif s[i] == '(':
        j = match_bracket(s, i)
        inner = s[i + 1:j]
        if inner.startswith('*'):
            base, k = _place(inner, 1)
            if inner[k:].strip():
                raise ParseError('deref trailing %r' % inner)
            pl = Place(base.local, base.proj + (('deref',),))
        else:
            base, k = _place(inner, 0)
            rest = inner[k:]
            if rest.startswith(' as '):
                pl = Place(base.local, base.proj + (('downcast', rest[4:].strip()),))
            elif rest.startswith('.'):
                m = re.compile(r'\.(\d+): ').match(rest)
                if not m:
                    raise ParseError('bad field %r' % rest[:40])
                pl = Place(base.local, base.proj + (('field', int(m.group(1)), rest[m.end():].strip()),))
            elif not rest.strip():
                pl = base
            else:
                raise ParseError('bad paren place %r' % inner[:80])
        i = j + 1
    else:
        raise ParseError('bad place start %r' % s[i:i + 40])
    # index suffixes
    while i < n and s[i] == '[':
        j = match_bracket(s, i)
        idx = s[i + 1:j].strip()
        m = re.fullmatch(r'_(\d+)', idx)
        if m:
            pl = Place(pl.local, pl.proj + (('index', int(m.group(1))),))
        else:
            m = re.fullmatch(r'(-?)(\d+) of (\d+)', idx)
            if m:
                pl = Place(pl.local, pl.proj + (('constindex', int(m.group(2)), m.group(1) == '-', int(m.group(3))),))
            else:
                m = re.fullmatch(r'(\d+)(\.\.|:)(-?)(\d*)', idx)
                if m:
                    pl = Place(pl.local, pl.proj + (('subslice', int(m.group(1)), m.group(4), m.group(3) == '-'),))
                else:
                    raise ParseError('bad index %r' % idx)
        i = j + 1
    return pl, i


def parse_operand(s):
    s = s.strip()
    if s.startswith('no_retag '):
        s = s[9:]
    if s.startswith('copy '):
        return ('copy', parse_place(s[5:]))
    if s.startswith('move '):
        return ('move', parse_place(s[5:]))
    if s.startswith('const '):
        return ('const', s[6:].strip())
    # bare path = function item / zero-sized constant
    return ('fn', s)


def _starts_operand(s):
    return s.startswith(('copy ', 'move ', 'const ', 'no_retag '))


def parse_rvalue(s):
    s = s.strip()
    if s.startswith('no_retag '):
        s = s[9:]
    s = s.replace('&raw const (fake) ', '&raw const ')
    if s.startswith('&raw const '):
        return ('addr', False, parse_place(s[11:]))
    if s.startswith('&raw mut '):
        return ('addr', True, parse_place(s[9:]))
    if s.startswith('&mut '):
        return ('ref', True, parse_place(s[5:]))
    if s.startswith('&fake shallow ') or s.startswith('&fake '):
        return ('ref', False, parse_place(s.split(' ', 2)[-1] if s.startswith('&fake shallow ') else s[6:]))
    if s.startswith('&') and not s.startswith('&&'):
        return ('ref', False, parse_place(s[1:]))
    if _starts_operand(s):
        # maybe a cast: "<operand> as T (Kind)"
        m = re.search(r' as (.*) \(([A-Za-z]+(?:\(.*\))?)\)$', s)
        if m and not s.startswith('const "'):
            # make sure the ' as ' is top-level (not inside a place's downcast parens)
            head = s[:m.start()]
            try:
                op = parse_operand(head)
                return ('cast', op, m.group(1).strip(), m.group(2))
            except ParseError:
                pass
        return ('use', parse_operand(s))
    m = re.match(r'([A-Za-z]+)\(', s)
    if m and s.endswith(')'):
        name = m.group(1)
        end = match_bracket(s, m.end() - 1)
        if end == len(s) - 1:
            inner = s[m.end():-1]
            if name in BINOPS:
                a, b = split_top(inner)
                return ('binop', name, parse_operand(a), parse_operand(b))
            if name in UNOPS:
                return ('unop', name, parse_operand(inner))
            if name == 'discriminant':
                return ('discr', parse_place(inner))
            if name == 'Len':
                return ('len', parse_place(inner))
            if name == 'CopyForDeref':
                return ('use', ('copy', parse_place(inner)))
            if name in OTHER_FN_RVALUES:
                return ('other', name, inner)
    if s.startswith('['):
        j = match_bracket(s, 0)
        if j == len(s) - 1:
            inner = s[1:-1]
            parts = split_top(inner, ';')
            if len(parts) == 2:
                return ('repeat', parse_operand(parts[0]), parts[1].strip())
            return ('array', [parse_operand(x) for x in split_top(inner) if x])
    if s.startswith('('):
        j = match_bracket(s, 0)
        if j == len(s) - 1:
            inner = s[1:-1]
            return ('tuple', [parse_operand(x) for x in split_top(inner) if x])
    if s.startswith('{closure@') or s.startswith('{coroutine@'):
        j = match_bracket(s, 0)
        loc = s[1:j]
        rest = s[j + 1:].strip()
        caps = []
        if rest.startswith('{'):
            inner = rest[1:match_bracket(rest, 0)]
            for part in split_top(inner):
                if not part:
                    continue
                k, v = part.split(': ', 1)
                caps.append((k.strip(), parse_operand(v)))
        return ('closure', loc, caps)
    # ADT aggregate:  Path { f: op, .. }  |  Path(op, ..)  |  Path
    # find the end of the path (top-level '{' preceded by space, or '(' at top level after path)
    i = 0
    n = len(s)
    depth = 0
    path_end = n
    while i < n:
        c = s[i]
        if c == '<':
            i = match_bracket(s, i) + 1
            continue
        if c == '{' and i > 0 and s[i - 1] == ' ':
            path_end = i
            break
        if c == '(':
            path_end = i
            break
        i += 1
    path = s[:path_end].strip()
    rest = s[path_end:].strip()
    if rest.startswith('{'):
        inner = rest[1:match_bracket(rest, 0)]
        fields = []
        for part in split_top(inner):
            if not part:
                continue
            k, v = part.split(': ', 1)
            fields.append((k.strip(), parse_operand(v)))
        return ('adt', path, 'named', fields)
    if rest.startswith('('):
        inner = rest[1:match_bracket(rest, 0)]
        return ('adt', path, 'tuple', [parse_operand(x) for x in split_top(inner) if x])
    return ('adt', path, 'unit', [])


TARGETS_RE = re.compile(r' -> (\[.*\]|bb\d+|unwind [a-z]+.*)$')


def parse_targets(t):
    """'[return: bb1, unwind: bb2]' / '[0: bb1, otherwise: bb3]' / 'bb3' / 'unwind continue'"""
    t = t.strip()
    out = {}
    if t.startswith('['):
        for part in split_top(t[1:-1]):
            if part.startswith('unwind '):
                out['unwind'] = part[7:].lstrip(': ').strip()
                continue
            k, v = part.split(': ', 1)
            out[k.strip()] = v.strip()
    elif t.startswith('bb'):
        out['return'] = t
    elif t.startswith('unwind'):
        out['unwind'] = t[7:]
    return out


def bbnum(x):
    return int(x[2:]) if x and x.startswith('bb') else None


def parse_statement(line):
    """returns ('assign', place, rvalue) | ('setdiscr', place, n) | ('nop',) | terminator tuples"""
    s = line.strip()
    if s.endswith(';'):
        s = s[:-1]
    if s == 'return':
        return ('return',)
    if s == 'unreachable':
        return ('unreachable',)
    if s in ('resume', 'abort') or s.startswith('unwind '):
        return ('diverge', s)
    if s.startswith('goto -> '):
        return ('goto', bbnum(s[8:].strip()))
    if s.startswith('switchInt('):
        j = match_bracket(s, 9)
        op = parse_operand(s[10:j])
        tg = parse_targets(s[j + 1:].strip()[3:])
        cases = []
        other = None
        for k, v in tg.items():
            if k == 'otherwise':
                other = bbnum(v)
            else:
                cases.append((int(k), bbnum(v)))
        return ('switch', op, cases, other)
    if s.startswith('drop('):
        j = match_bracket(s, 4)
        tg = parse_targets(s[j + 1:].strip()[3:])
        return ('drop', parse_place(s[5:j]), bbnum(tg.get('return')))
    if s.startswith('assert('):
        j = match_bracket(s, 6)
        inner = split_top(s[7:j])
        cond = inner[0].strip()
        expected = True
        if cond.startswith('!'):
            expected = False
            cond = cond[1:]
        tg = parse_targets(s[j + 1:].strip()[3:])
        return ('assert', parse_operand(cond), expected, inner[1] if len(inner) > 1 else '', bbnum(tg.get('success')))
    if s.startswith(('StorageLive(', 'StorageDead(', 'FakeRead(', 'PlaceMention(', 'Retag(', 'AscribeUserType(',
                     'Coverage::', 'ConstEvalCounter', 'nop', 'Deinit(', 'BackwardIncompatibleDropHint')):
        return ('nop',)
    if s.startswith('discriminant('):
        j = match_bracket(s, 12)
        return ('setdiscr', parse_place(s[13:j]), int(s[j + 1:].strip()[1:].strip()))
    # assignment or call
    m = None
    k = s.rfind(' -> ')
    if k >= 0:
        m = TARGETS_RE.match(s, k)
    lhs = None
    body = s
    if m and _looks_like_call(s[:m.start()]):
        tg = parse_targets(m.group(1))
        body = s[:m.start()]
        eq = _find_assign(body)
        if eq is not None:
            lhs = parse_place(body[:eq])
            body = body[eq + 3:]
        body = body.strip()
        # callee(args): find the last top-level '(' group
        assert body.endswith(')'), body
        # scan for matching open of final ')'
        k = _open_of_last(body)
        callee = body[:k].strip()
        args = [parse_operand(a) for a in split_top(body[k + 1:-1]) if a]
        return ('call', lhs, callee, args, bbnum(tg.get('return')))
    eq = _find_assign(s)
    if eq is None:
        raise ParseError('unknown statement: ' + s[:200])
    return ('assign', parse_place(s[:eq]), parse_rvalue(s[eq + 3:]))


def _looks_like_call(body):
    return body.rstrip().endswith(')')


def _find_assign(s):
    """index of top-level ' = ' (first), or None"""
    depth = 0
    i = 0
    n = len(s)
    while i < n:
        c = s[i]
        if c == '"':
            i = skip_string(s, i)
            continue
        if c in '([{':
            depth += 1
        elif c in ')]}':
            depth -= 1
        if depth == 0 and s.startswith(' = ', i):
            return i
        i += 1
    return None


def _open_of_last(body):
    """index of the '(' matching the final ')' of body"""
    # forward scan tracking top-level paren groups
    i = 0
    n = len(body)
    last_open = None
    while i < n:
        c = body[i]
        if c == '"':
            i = skip_string(body, i)
            continue
        if c in '([{<':
            if c == '<' and i > 0 and body[i - 1] == ' ' and not body.startswith('<', 0):
                pass
            j = match_bracket(body, i)
            if c == '(' and j == n - 1:
                return i
            i = j + 1
            continue
        i += 1
    raise ParseError('no call parens: ' + body[:200])


# ---------------------------------------------------------------------------------------
# item-level parsing

HEADER_RE = re.compile(r'^(fn|const|static|static mut) (.*)$')
IMPL_AT_RE = re.compile(r'<impl at ([^:>]+):(\d+):(\d+): (\d+):(\d+)>')
CLOSURE_TY_RE = re.compile(r'\{closure@([^}]+)\}')


def parse_mir_file(path, crate):
    """returns list of Function"""
    import hashlib
    with open(path, errors='replace') as f:
        lines = f.read().split('\n')
    funcs = []
    i = 0
    n = len(lines)
    while i < n:
        line = lines[i]
        m = HEADER_RE.match(line)
        if not m or line.startswith('    '):
            i += 1
            continue
        kind, rest = m.group(1), m.group(2)
        start = i
        if kind == 'fn':
            # name(args) -> ret {
            k = rest.index('(') if '(' in rest else None
            # the name may contain '(' only inside <impl at ..> (never) ; closures: {closure#0}
            name = rest[:k]
            j = match_bracket(rest, k)
            argstr = rest[k + 1:j]
            after = rest[j + 1:].strip()
            ret = '()'
            if after.startswith('->'):
                ret = after[2:].rstrip('{').strip()
            fn = Function(name.strip(), crate)
            for a in split_top(argstr):
                if not a:
                    continue
                mm = re.match(r'_(\d+): (.*)$', a)
                if mm:
                    fn.args.append((int(mm.group(1)), mm.group(2).strip()))
                    fn.locals[int(mm.group(1))] = mm.group(2).strip()
            fn.ret = ret
            fn.locals[0] = ret
        else:
            # const NAME: T = const V;   or   const NAME: T = {
            # first ': ' outside <...> (impl locations contain ': ')
            depth = 0
            cpos = -1
            for k, ch in enumerate(rest):
                if ch == '<':
                    depth += 1
                elif ch == '>' and not (k > 0 and rest[k - 1] in '-='):
                    depth -= 1
                elif ch == ':' and depth == 0 and rest[k:k + 2] == ': ':
                    cpos = k
                    break
            epos = rest.rfind(' = ')
            if cpos < 0 or epos < cpos:
                i += 1
                continue
            name, ty, val = rest[:cpos], rest[cpos + 2:epos], rest[epos + 3:]
            fn = Function(name.strip(), crate)
            fn.kind = 'const'
            fn.ret = ty.strip()
            fn.locals[0] = fn.ret
            if not val.strip().startswith('{'):
                fn.const_value = val.strip().rstrip(';')
                fn.line = start + 1
                fn.nlines = 1
                _finish(fn, funcs)
                i += 1
                continue
        # body until a line == '}'
        i += 1
        cur = None
        body_lines = []
        while i < n and lines[i] != '}':
            body_lines.append(lines[i])
            i += 1
        fn.line = start + 1
        fn.nlines = i - start + 1
        fn.text_hash = hashlib.sha1('\n'.join(body_lines).encode()).hexdigest()[:12]
        _parse_body(fn, body_lines)
        _finish(fn, funcs)
        i += 1
    return funcs


def _finish(fn, funcs):
    ms = IMPL_AT_RE.findall(fn.name)
    if ms:
        f, a, b, c, d = ms[-1]
        fn.impl_loc = (f, int(a), int(b), int(c), int(d))
    if '{closure#' in fn.name and fn.args:
        m = CLOSURE_TY_RE.search(fn.args[0][1])
        if m:
            fn.closure_loc = m.group(1)
    m = re.match(r'^(.*)::promoted\[(\d+)\]$', fn.name)
    if m:
        fn.kind = 'promoted'
        # attach to the most recent function with that name
        for g in reversed(funcs):
            if g.name == m.group(1) and g.kind != 'promoted':
                g.promoted[int(m.group(2))] = fn
                break
    funcs.append(fn)


LET_RE = re.compile(r'^\s*let (?:mut )?_(\d+): (.*);$')
BB_RE = re.compile(r'^\s*bb(\d+)( \(cleanup\))?: \{$')


def _parse_body(fn, body_lines):
    cur = None
    pending = None
    for raw in body_lines:
        line = raw.strip()
        if not line:
            continue
        if pending is not None:
            pending += ' ' + line
            if _complete(pending):
                _add_stmt(fn, cur, pending)
                pending = None
            continue
        m = BB_RE.match(raw)
        if m:
            cur = Block()
            cur.cleanup = bool(m.group(2))
            fn.blocks[int(m.group(1))] = cur
            continue
        if cur is None:
            m = LET_RE.match(raw)
            if m:
                fn.locals[int(m.group(1))] = m.group(2).strip()
            continue
        if line == '}':
            cur = None
            continue
        if line.startswith('//'):
            continue
        if _complete(line):
            _add_stmt(fn, cur, line)
        else:
            pending = line
    # let-declarations can also appear inside scopes before the blocks (handled above since cur is None)


def _complete(s):
    # a statement is complete when it ends with ';' outside a string literal
    if not s.endswith(';'):
        return False
    # count quotes (unescaped)
    i = 0
    n = len(s)
    while i < n:
        if s[i] == '"':
            j = skip_string(s, i)
            if j >= n and not s.endswith('";'):
                # string not closed
                if j == n and s[n - 2:] != '";':
                    pass
            if j > n:
                return False
            i = j
            continue
        i += 1
    return True


def _add_stmt(fn, blk, line):
    if blk.cleanup:
        return  # unwinding paths are never executed
    try:
        st = parse_statement(line)
    except Exception as e:  # keep going; executing this statement will raise
        st = ('unparsed', line, repr(e))
    if st[0] in ('return', 'unreachable', 'diverge', 'goto', 'switch', 'drop', 'assert', 'call'):
        blk.term = st
    else:
        blk.stmts.append(st)


if __name__ == '__main__':
    import sys, collections
    bad = collections.Counter()
    tot = 0
    for p in sys.argv[1:]:
        fs = parse_mir_file(p, 'x')
        nst = 0
        for f in fs:
            for b in f.blocks.values():
                for st in b.stmts + [b.term]:
                    nst += 1
                    if st is None:
                        bad['noterm'] += 1
                    elif st[0] == 'unparsed':
                        bad[st[2][:60]] += 1
                        if bad[st[2][:60]] < 3:
                            print('UNPARSED', st[1][:300], st[2][:200])
        print(p, len(fs), 'items', nst, 'stmts')
    print(bad.most_common(20))
