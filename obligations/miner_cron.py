"""handle_proving_deadline (the miner's cron callback) executed whole from MIR with the sector-table operations cut to
contracts (declared; they belong to the C04 not-applicable area):
  State::cleanup_expired_pre_commits -> burns d with 0 <= d <= pre_commit_deposits, deposits fall by d
  State::advance_deadline            -> releases r with 0 <= r <= initial_pledge (pledge_delta = -r), arbitrary power
                                        deltas, faulty/live power >= 0, daily fee >= 0, may flag early terminations
  pledge_penalty_for_continued_fault / expected_reward_for_power / daily_proof_fee_payable -> arbitrary amounts >= 0
                                        (non-negativity proved in C15)
  process_early_terminations         -> arbitrary 'more work' flag, no effect
Clauses tagged C05 (callback never fails on its own accounting; exactly one next-deadline callback iff funds remain),
C13 (worker key only after the delay), C15 (all charges burnt or kept as debt), C03 (pledge notifications), C01."""
from .common import *
from .miner_common import *
from .miner_money import tagged, for_property, classify_sends, pledge_delta_of, common_money_props, cut_add_locked_funds
from . import C13

ENROLL_CRON = 4
UPDATE_CLAIMED_POWER = 3


def _pp(raw, qa):
    return StructV('partition_state::PowerPair', {0: BigV(raw), 1: BigV(qa)})


def _cut_cleanup(E, call):
    ST = SF()
    st = E.deref(call.args[0])
    pcd = fget(E, st, ST['pre_commit_deposits'], TOKEN).v
    d = z3.Int('expired_precommit_deposits')
    E.ctx.assume(z3.And(d >= 0, d <= pcd))
    if E.ctx.env.get('focus') == 'worker':
        E.ctx.assume(d == 0)
    E.ctx.env['deposit_to_burn'] = d
    E.store(call.args[0], E.set_path(st, [('field', ST['pre_commit_deposits'], TOKEN)], BigV(pcd - d)))
    return ok(BigV(d), call.dest_ty)


def _cut_advance(E, call):
    ST = SF()
    st = E.deref(call.args[0])
    ip = fget(E, st, ST['initial_pledge'], TOKEN).v
    r = z3.Int('on_time_pledge_released')
    E.ctx.assume(z3.And(r >= 0, r <= ip))
    quiet = E.ctx.env.get('focus') == 'worker'
    if quiet:
        E.ctx.assume(r == 0)
    st = E.set_path(st, [('field', ST['initial_pledge'], TOKEN)], BigV(ip - r))
    if not quiet and E.ctx.branch(z3.Bool('advance.flags_early_terminations')):
        nm = E.ctx.fresh_name('early_terms')
        E.ctx.assume(z3.Int(nm + '#card') >= 1)
        st = E.set_path(st, [('field', ST['early_terminations'], 'BitField')], models_fvm.BitFieldV(nm))
        E.ctx.env['advance_flagged'] = True
    E.store(call.args[0], st)
    names = ['power_delta', 'previously_faulty', 'detected_faulty', 'total_faulty', 'live']
    vals = {n: (z3.Int('adv.%s.raw' % n), z3.Int('adv.%s.qa' % n)) for n in names}
    for n in names[1:]:
        E.ctx.assume(z3.And(vals[n][0] >= 0, vals[n][1] >= 0))
    fee = z3.Int('adv.daily_fee')
    E.ctx.assume(fee >= 0)
    if quiet:
        E.ctx.assume(z3.And(fee == 0, *[z3.And(vals[n][0] == 0, vals[n][1] == 0) for n in names]))
    E.ctx.env['adv'] = dict(r=r, fee=fee, vals=vals)
    res = StructV('state::AdvanceDeadlineResult', {0: BigV(-r), 1: _pp(*vals['power_delta']), 2: _pp(*vals['previously_faulty']),
                                                   3: _pp(*vals['detected_faulty']), 4: _pp(*vals['total_faulty']), 5: BigV(fee), 6: _pp(*vals['live'])})
    return ok(res, call.dest_ty)


def _cut_amount(name):
    def cut(E, call):
        v = z3.Int(E.ctx.fresh_name(name))
        E.ctx.assume(v >= 0)
        E.ctx.env.setdefault('charges', {})[name] = v
        return BigV(v)
    return cut


def _cut_pet(E, call):
    E.ctx.env['pet_called'] = True
    more = E.ctx.fresh_bool('process_early_terminations.more')
    E.ctx.env['pet_more'] = more
    return ok(more, call.dest_ty)


def run_hpd(nvest, sends_ok=True, focus='all'):
    def run(E):
        rt, rtref = new_rt(E)
        E.ctx.env['focus'] = focus
        if sends_ok:
            rt.send_hook = lambda E2, rt2, rec, nm: ('ok', None)
        pre = mk_miner_state(E, nvest)
        rt.state = pre['st']
        E.ctx.assume(rt.balance >= pre['pcd'] + pre['lf'] + pre['ip'])
        E.ctx.env['balance0'] = rt.balance
        et0 = E.deref(fget(E, pre['st'], SF()['early_terminations'], 'BitField'))
        E.ctx.env['et0_empty'] = models_fvm.bitfield_empty(E, et0)
        if focus == 'money':
            E.ctx.assume(z3.Not(C13.bz(C13.view(E, pre['info'])['pw_some'])))
        E.cuts['State::cleanup_expired_pre_commits'] = _cut_cleanup
        E.cuts['State::advance_deadline'] = _cut_advance
        for pre_ in ('', 'monies::', 'policy::'):
            E.cuts[pre_ + 'pledge_penalty_for_continued_fault'] = _cut_amount('continued_fault_fee')
            E.cuts[pre_ + 'expected_reward_for_power'] = _cut_amount('day_reward')
            E.cuts[pre_ + 'daily_proof_fee_payable'] = _cut_amount('daily_fee_payable')
        E.cuts['process_early_terminations'] = _cut_pet
        fe = 'fil_actors_runtime::reward::FilterEstimate'
        fn = find_fn(E, MINER, 'handle_proving_deadline')
        return E.run_function(fn, [rtref, RefV(Cell(LazyV('rew_est', fe), 'r'), ()), RefV(Cell(LazyV('pow_est', fe), 'p'), ())]), rt
    return run


def props_hpd(E, res):
    env = res.ctx.env
    rt, pre = env['rt'], env['pre']
    ctx = res.ctx
    ST = SF()
    if res.kind != 'return':
        return [tagged('C05', 'the proving-deadline callback never panics (%s)' % str(res.info)[:60], False)]
    if is_err(res.value):
        # the only legitimate failures are failures of the non-tolerated sends to the power / burnt-funds actors
        return [tagged('C05', 'the callback fails only when a send to the power or burnt-funds actor failed', any(not s.ok for s in rt.sends))]
    ch = env.get('charges', {})
    adv = env.get('adv')
    penalty = env.get('deposit_to_burn', 0) + ch.get('continued_fault_fee', 0) + ch.get('daily_fee_payable', 0)
    burns, pledge, others = classify_sends(rt, ctx)
    led = ledgers(E, rt.state)
    P = []
    burnt = sum(s.value for s in burns) if burns else 0
    P.append(tagged('C15', 'every charge of the deadline (expired pre-commit deposits, continued-fault fee, daily fee) is burnt at once or recorded as fee debt',
                    burnt + led['fd'] == pre['fd'] + penalty))
    P.append(tagged('C15,C01', 'fee debt never negative', led['fd'] >= 0))
    sent_delta = sum(pledge_delta_of(E, s) for s in pledge) if pledge else 0
    P.append(tagged('C03', 'pledge notifications add up to the change of pledge + vesting funds', sent_delta == (led['ip'] + led['lf']) - (pre['ip'] + pre['lf'])))
    P.append(tagged('C03,C14', 'locked-funds total = sum of the vesting schedule', led['lf'] == table_sum(led['vents'])))
    P.append(tagged('C03', 'deposits fall by exactly the expired pre-commit deposits', led['pcd'] == pre['pcd'] - env.get('deposit_to_burn', 0)))
    if adv is not None:
        P.append(tagged('C03', 'initial pledge falls by exactly the pledge released by on-time expirations', led['ip'] == pre['ip'] - adv['r']))
    P.append(tagged('C01', 'miner stays solvent', solvency(rt, led)))
    # sends to the power actor: power update / pledge update / cron enrolment; nothing else carries value
    enrol = []
    for s in others:
        P.append(tagged('C01', 'only burns carry value', s.value == 0))
        P.append(tagged('C05', 'all other sends go to the power actor', b_and(s.to.proto == 0, s.to.key == POWER)))
        if implied(ctx, zv(s.method) == ENROLL_CRON):
            enrol.append(s)
    # C05: exactly one proving-deadline callback iff the miner still has deposits, pledge or vesting funds
    cont = z3.Or(led['pcd'] != 0, led['ip'] != 0, led['lf'] != 0)
    active = fget(E, rt.state, ST['deadline_cron_active'], 'bool')
    pd = []
    for s in enrol:
        obj = s.params.obj if isinstance(s.params, BlockV) else None
        if obj is None:
            P.append(tagged('C05', 'cron enrolment carries typed params', False))
            continue
        ev_epoch = fget(E, obj, 0, 'i64').v
        payload = E.deref(fget(E, obj, 1, 'RawBytes'))
        pobj = payload.obj if isinstance(payload, BlockV) else None
        et = fget(E, pobj, 0, 'i64').v if pobj is not None else None
        if et is not None and implied(ctx, et == 1):
            pd.append(ev_epoch)
        elif et is not None and implied(ctx, et == 2):
            P.append(tagged('C05', 'early-termination work is scheduled for the next epoch', ev_epoch == rt.epoch + 1))
        else:
            P.append(tagged('C05', 'cron payload type known', False))
    # sectors terminated early by this deadline (fault expiry) must get their termination fee assessed: when no
    # early-termination work was pending before (so no callback for it exists), the work is started now and, if it does not
    # finish, continued by a callback at the next epoch
    if env.get('advance_flagged'):
        n_et = sum(1 for x in P if 'early-termination work is scheduled for the next epoch' in x[0])
        more = env.get('pet_more')
        started = z3.BoolVal(bool(env.get('pet_called')))
        cont_ok = z3.Implies(more, z3.BoolVal(n_et >= 1)) if more is not None else z3.BoolVal(False)
        P.append(tagged('C15,C05', 'sectors terminated early by this deadline are assessed: with no work pending before, fee assessment starts now and is continued by a callback if unfinished',
                        z3.Implies(env['et0_empty'] if is_sym(env['et0_empty']) else z3.BoolVal(bool(env['et0_empty'])), z3.And(started, cont_ok))))
    P.append(tagged('C05', 'exactly one next proving-deadline callback while funds remain, none otherwise', z3.If(cont, len(pd) == 1, len(pd) == 0)))
    P.append(tagged('C05', 'cron flag cleared exactly when the miner goes idle', z3.Implies(z3.Not(cont), z3.Not(active if is_sym(active) else z3.BoolVal(bool(active))))))
    for e_ in pd:
        P.append(tagged('C05', 'the next callback is scheduled strictly in the future and within one challenge window + one proving period',
                        z3.And(e_ > rt.epoch, e_ <= rt.epoch + 2880 + 60)))
    # C13: worker key
    a = C13.view(E, pre['info'])
    info1 = C13.info_after(E, rt)
    b = C13.view(E, info1) if info1 is not None else a
    due = z3.And(C13.bz(a['pw_some']), rt.epoch >= a['pw_at'])
    P.append(tagged('C13', 'cron path: the worker key changes only once the security delay has passed, to the requested key',
                    z3.If(due, z3.And(addr_eq(b['worker'], a['pw_new']), z3.Not(C13.bz(b['pw_some']))),
                          z3.And(addr_eq(b['worker'], a['worker']), C13.same_pw(a, b)))))
    for (l, f) in C13.control_frame(ctx, a, b, 'cron'):
        if 'worker' not in l:
            P.append(tagged('C13', l, f))
    return P


def build_for(pid, tier):
    O = []
    wrap = lambda f: (lambda E, res: for_property(pid, f(E, res)))
    cuts = 'CUTS: cleanup_expired_pre_commits, advance_deadline, fee formulas, process_early_terminations (contracts in obligations/miner_cron.py)'
    focus = 'worker' if pid == 'C13' else 'money'
    FOC = {'money': 'no worker-key change pending', 'all': 'no restriction',
           'worker': 'quiet deadline (no expirations, faults, fees or power change)'}
    descr = 'cron callback: charges burnt or kept as debt, pledge notifications exact, one next-deadline callback iff funds remain, worker key only after the delay, never fails on its own accounting'
    # quick tier: the one-entry vesting table variant runs under C15 only (the heaviest variant; every property gets it in the thorough tier)
    variants = [(n, focus) for n in (([0, 1] if pid == 'C15' else [0]) if tier == 'quick' else [0, 1, 2])]
    if tier != 'quick':
        variants += [(0, 'all'), (1, 'all')]
    for (n, foc) in variants:
        O.append(Obligation('miner.handle_proving_deadline[vesting entries=%d; %s]' % (n, FOC[foc]), run_hpd(n, True, foc), wrap(props_hpd), descr=descr,
                            bounds='%d vesting entries; %s; sends to the power and burnt-funds actors succeed (funds permitting); %s' % (n, FOC[foc], cuts),
                            max_paths=400000, wall_s=400 if tier == 'quick' else 1500))
    if pid == 'C05':
        O.append(Obligation('miner.handle_proving_deadline[sends may fail]', run_hpd(0, False, 'money'), wrap(props_hpd),
                            descr='cron callback with every send free to succeed, fail with any exit code or hit a syscall error: the callback fails only because of such a failure',
                            bounds='0 vesting entries; %s; %s' % (FOC['money'], cuts), max_paths=400000, wall_s=500 if tier == 'quick' else 1500))
    return O


# ---- dispute_windowed_post: the penalty of a successfully disputed proof ---------------------------------------------
# Whole method from MIR; the sector/partition part between the dispute-window check and the penalty computation is cut
# to contracts (declared; C04 area): request_current_epoch_block_reward / request_current_total_power (typed answers),
# State::load_deadlines, Deadlines::load_deadline / update_deadline, Deadline::take_post_proofs /
# load_partitions_for_dispute (disputed power >= 0) / record_faults (arbitrary power delta), Sectors::load /
# load_for_proof, verify_windowed_post (arbitrary verdict), State::save_deadlines, pledge_penalty_for_invalid_windowpost
# and reward_for_disputed_window_post (arbitrary amounts >= 0).

def run_dispute(nvest):
    def run(E):
        rt, rtref = new_rt(E)
        pre = mk_miner_state(E, nvest)
        rt.state = pre['st']
        E.ctx.assume(rt.balance >= pre['pcd'] + pre['lf'] + pre['ip'])
        E.ctx.assume(rt.caller.key >= 100)         # disputers are user actors
        E.ctx.assume(z3.Not(C13.bz(C13.view(E, pre['info'])['pw_some'])))
        E.ctx.env['balance0'] = rt.balance
        env = E.ctx.env
        lz = lambda nm, ty: (lambda E2, c: ok(LazyV(nm, ty), c.dest_ty))
        E.cuts['request_current_epoch_block_reward'] = lz('epoch_reward', 'fil_actors_runtime::builtin::reward::ThisEpochRewardReturn')
        E.cuts['request_current_total_power'] = lz('power_total', 'ext::power::CurrentTotalPowerReturn')
        E.cuts['State::load_deadlines'] = lz('deadlines', 'deadlines::Deadlines')
        E.cuts['Deadlines::load_deadline'] = lz('dl', 'deadline_state::Deadline')
        E.cuts['Deadlines::update_deadline'] = lambda E2, c: ok(UNIT, c.dest_ty)
        E.cuts['State::save_deadlines'] = lambda E2, c: ok(UNIT, c.dest_ty)
        E.cuts['Deadline::take_post_proofs'] = lambda E2, c: ok(StructV('tuple', {0: models_fvm.BitFieldV('disputed_partitions'), 1: VecV([], 'Vec<PoStProof>')}), c.dest_ty)

        def dinfo(E2, c):
            raw, qa = z3.Int('disputed.raw'), z3.Int('disputed.qa')
            E2.ctx.assume(z3.And(raw >= 0, qa >= 0))
            DI = Fields('actors/miner/src/deadline_state.rs', 'DisputeInfo')
            v = StructV('deadline_state::DisputeInfo', {DI['disputed_power']: _pp(raw, qa)}, lazy='dispute_info')
            return ok(v, c.dest_ty)
        E.cuts['Deadline::load_partitions_for_dispute'] = dinfo
        E.cuts['Sectors::load'] = lz('sectors', 'sectors::Sectors')
        E.cuts['Sectors::load_for_proof'] = lambda E2, c: ok(VecV([], 'Vec<SectorOnChainInfo>'), c.dest_ty)
        E.cuts['verify_windowed_post'] = lambda E2, c: ok(E2.ctx.fresh_bool('post_valid'), c.dest_ty)
        E.cuts['Deadline::record_faults'] = lambda E2, c: ok(_pp(z3.Int('fault_delta.raw'), z3.Int('fault_delta.qa')), c.dest_ty)
        for pre_ in ('', 'monies::', 'policy::'):
            E.cuts[pre_ + 'pledge_penalty_for_invalid_windowpost'] = _cut_amount('penalty_base')
            E.cuts[pre_ + 'reward_for_disputed_window_post'] = _cut_amount('reward_target')
        rt.send_hook = lambda E2, rt2, rec, nm: (None if implied(E2.ctx, addr_eq(rec.to, rt2.caller)) else ('ok', None))   # only the reward transfer may fail
        from .miner_money import install_bib_cut
        install_bib_cut(E)
        params = LazyV('params', 'types::DisputeWindowedPoStParams')
        fn = find_fn(E, MINER, 'dispute_windowed_post')
        return E.run_function(fn, [rtref, params]), rt
    return run


def props_dispute(E, res):
    from .miner_money import bib_prop
    env = res.ctx.env
    rt, pre = env['rt'], env['pre']
    ctx = res.ctx
    if res.kind != 'return':
        return [tagged('ALL', 'no panic (%s)' % str(res.info)[:60], False)]
    if is_err(res.value):
        return [bib_prop(res)]
    ch = env.get('charges', {})
    penalty = ch.get('penalty_base', 0) + ch.get('reward_target', 0)
    target = ch.get('reward_target', 0)
    led = ledgers(E, rt.state)
    burns, pledge, others = classify_sends(rt, ctx)
    reporter_sends = [s for s in others if implied(ctx, zv(s.method) == 0) and implied(ctx, addr_eq(s.to, rt.caller))]
    power_sends = [s for s in others if s not in reporter_sends]
    paid = sum(s.value for s in reporter_sends if s.ok) if reporter_sends else 0
    offered = sum(s.value for s in reporter_sends) if reporter_sends else 0
    burnt = sum(s.value for s in burns) if burns else 0
    P = []
    P.append(tagged('C15', 'the whole penalty of a disputed proof is burnt, paid to the disputer or kept as fee debt; an undeliverable reward is burnt, never kept by the miner',
                    burnt + paid + led['fd'] == pre['fd'] + penalty))
    taken = pre['fd'] + penalty - led['fd']
    P.append(tagged('C15', "the disputer's reward never exceeds what was taken from the miner nor the reward target", z3.And(offered <= taken, offered <= target, offered >= 0)))
    P.append(tagged('C15,C01', 'fee debt never negative', led['fd'] >= 0))
    for s in power_sends:
        P.append(tagged('C01', 'only the burn and the reward carry value', s.value == 0))
    sent_delta = sum(pledge_delta_of(E, s) for s in pledge) if pledge else 0
    P.append(tagged('C03', 'pledge notifications add up to the change of pledge + vesting funds', sent_delta == (led['ip'] + led['lf']) - (pre['ip'] + pre['lf'])))
    P.append(tagged('C03,C14', 'locked-funds total = sum of the vesting schedule', led['lf'] == table_sum(led['vents'])))
    P.append(tagged('C01', 'miner stays solvent', solvency(rt, led)))
    P.append(tagged('C05', "no 'balance invariants broken' from a solvent state", True))
    return P


def build_dispute(pid, tier):
    wrap = lambda f: (lambda E, res: for_property(pid, f(E, res)))
    O = []
    for n in ([0, 1] if tier == 'quick' else [0, 1, 2]):
        O.append(Obligation('miner.dispute_windowed_post[vesting entries=%d]' % n, run_dispute(n), wrap(props_dispute),
                            descr='successful dispute: penalty = base + reward target applied in full (burnt, paid to the disputer or fee debt); undeliverable reward burnt; pledge notification exact; solvent',
                            bounds='%d vesting entries; CUTS: deadline/partition/sector loading, proof verification (arbitrary verdict), record_faults, penalty/reward formulas (arbitrary amounts >= 0); no worker-key change pending; sends to the power / burnt-funds actors succeed, the reward transfer may fail' % n,
                            max_paths=400000, wall_s=400 if tier == 'quick' else 1500))
    return O


# ---- process_early_terminations: every early-terminated sector pays its termination fee, its pledge is released -----------
# CUTS (declared): State::pop_early_terminations -> one queue entry (epoch, n sector numbers) or nothing, arbitrary
# `more`; Sectors::load / load_sectors -> n arbitrary sector infos whose pledges are covered by the pledge total;
# qa_power_for_sector, pledge_penalty_for_continued_fault, pledge_penalty_for_termination -> arbitrary amounts >= 0 (the
# termination-fee bounds are decided in C15's formula obligations).

def run_pet(n, nvest=0):
    def run(E):
        rt, rtref = new_rt(E)
        pre = mk_miner_state(E, nvest)
        rt.state = pre['st']
        E.ctx.assume(rt.balance >= pre['pcd'] + pre['lf'] + pre['ip'])
        E.ctx.assume(z3.And(rt.epoch >= 0, rt.epoch < 2**40))
        E.ctx.assume(z3.Not(C13.bz(C13.view(E, pre['info'])['pw_some'])))
        env = E.ctx.env
        env['balance0'] = rt.balance
        SO = Fields('actors/miner/src/types.rs', 'SectorOnChainInfo')
        TR = Fields('actors/miner/src/termination.rs', 'TerminationResult')
        nums = [E.materialize('u64', 'term%d.number' % i).v for i in range(n)]
        secs = []
        pledges = []
        for i in range(n):
            p = z3.Int('term%d.initial_pledge' % i)
            E.ctx.assume(p >= 0)
            pledges.append(p)
            act = E.materialize('i64', 'term%d.activation' % i)
            E.ctx.assume(z3.And(act.v >= 0, act.v < 2**40))
            secs.append(StructV('types::SectorOnChainInfo', {SO['sector_number']: IntV(nums[i], 'u64'), SO['initial_pledge']: BigV(p), SO['activation']: act}, lazy='term%d' % i))
        E.ctx.assume(pre['ip'] >= (sum(pledges) if pledges else 0))       # C03 invariant: pledge total covers the live sectors' pledges
        more = E.ctx.fresh_bool('more_early_terminations') if False else z3.Bool('more_early_terminations')
        ep = E.materialize('i64', 'termination_epoch')
        E.ctx.assume(z3.And(ep.v >= 0, ep.v < 2**40))

        def cut_pop(E2, c):
            d = models_std.DictM('BTreeMap')
            if n:
                d.items.append([('int', ep.v), ep, Cell(models_fvm.BitSetV(nums), 'sectors')])
            res = StructV('termination::TerminationResult', {TR['sectors']: ObjV(d), TR['partitions_processed']: IntV(1 if n else 0, 'u64'), TR['sectors_processed']: IntV(n, 'u64')})
            return ok(StructV('tuple', {0: res, 1: more}), c.dest_ty)
        E.cuts['State::pop_early_terminations'] = cut_pop
        E.cuts['Sectors::load'] = lambda E2, c: ok(LazyV('sectors', 'sectors::Sectors'), c.dest_ty)
        E.cuts['Sectors::load_sectors'] = lambda E2, c: ok(VecV(list(secs), 'Vec<SectorOnChainInfo>'), c.dest_ty)
        fees = env.setdefault('fees', [])

        def cut_fee(E2, c):
            v = z3.Int('termination_fee%d' % len(fees))
            E2.ctx.assume(v >= 0)
            fees.append(v)
            return BigV(v)
        for pre_ in ('', 'monies::', 'policy::'):
            E.cuts[pre_ + 'pledge_penalty_for_termination'] = cut_fee
            E.cuts[pre_ + 'pledge_penalty_for_continued_fault'] = lambda E2, c: BigV(z3.Int(E2.ctx.fresh_name('fault_fee')))
            E.cuts[pre_ + 'qa_power_for_sector'] = lambda E2, c: BigV(z3.Int(E2.ctx.fresh_name('sector_power')))
        from .miner_money import install_bib_cut
        install_bib_cut(E)
        rt.send_hook = lambda E2, rt2, rec, nm: ('ok', None)
        env.update(dict(n=n, pledges=pledges, more=more))
        fe = 'fil_actors_runtime::reward::FilterEstimate'
        fn = find_fn(E, MINER, 'process_early_terminations')
        return E.run_function(fn, [rtref, RefV(Cell(LazyV('rew_est', fe), 'r'), ()), RefV(Cell(LazyV('pow_est', fe), 'p'), ())]), rt
    return run


def props_pet(E, res):
    from .miner_money import bib_prop
    env = res.ctx.env
    rt, pre = env['rt'], env['pre']
    ctx = res.ctx
    if res.kind != 'return':
        return [tagged('ALL', 'no panic (%s)' % str(res.info)[:60], False)]
    if is_err(res.value):
        return [bib_prop(res)]
    fees = env.get('fees', [])
    total_fee = sum(fees) if fees else 0
    total_pledge = sum(env['pledges']) if env['pledges'] else 0
    led = ledgers(E, rt.state)
    burns, pledge, others = classify_sends(rt, ctx)
    burnt = sum(s.value for s in burns) if burns else 0
    P = [tagged('C15', 'every early-terminated sector is charged one termination fee', len(fees) == env['n']),
         tagged('C15', 'the termination fees are burnt at once or recorded as fee debt', burnt + led['fd'] == pre['fd'] + total_fee),
         tagged('C15,C01', 'fee debt never negative', led['fd'] >= 0),
         tagged('C03', "the initial-pledge total falls by exactly the terminated sectors' pledges", led['ip'] == pre['ip'] - total_pledge),
         tagged('C03,C14', 'locked-funds total = sum of the vesting schedule', led['lf'] == table_sum(led['vents'])),
         tagged('C01', 'miner stays solvent', solvency(rt, led))]
    sent = sum(pledge_delta_of(E, s) for s in pledge) if pledge else 0
    P.append(tagged('C03', 'pledge notifications add up to the change of pledge + vesting funds', sent == (led['ip'] + led['lf']) - (pre['ip'] + pre['lf'])))
    for s in others:
        P.append(tagged('C01', 'only the burn carries value', s.value == 0))
    r = res.value.fields[('Ok', 0)]
    rv = r if is_sym(r) else z3.BoolVal(bool(r))
    P.append(tagged('C05', 'the caller learns exactly whether early terminations remain queued', rv == env['more']))
    return P


def build_pet(pid, tier):
    wrap = lambda f: (lambda E, res: for_property(pid, f(E, res)))
    O = []
    for (n, nv) in ([(0, 0), (1, 0), (2, 0)] if tier == 'quick' else [(0, 0), (1, 0), (2, 0), (1, 1), (2, 1), (3, 0)]):
        O.append(Obligation('miner.process_early_terminations[sectors=%d, vesting entries=%d]' % (n, nv), run_pet(n, nv), wrap(props_pet),
                            descr='each early-terminated sector pays one termination fee (burnt or fee debt); the pledge total falls by exactly their pledges; pledge notification exact; solvent; `more` passed through',
                            bounds='%d terminated sector(s) in one queue entry, %d vesting entries; CUTS: pop_early_terminations, sector loading, fee formulas (contracts in obligations/miner_cron.py); sends succeed' % (n, nv),
                            max_paths=200000, wall_s=300 if tier == 'quick' else 1200))
    return O


# ---- pre_commit_sector_batch (inner): deposit ledger, fee-debt gate, cron activation -------------------------------------
# CUTS (declared): request_current_epoch_block_reward / request_current_total_power (typed answers), verify_deals (typed
# answer with one entry per sector), pre_commit_deposit_for_power -> arbitrary amount >= 0 (the same for every sector of
# the batch), allocate_sector_numbers / put_precommitted_sectors (captured) / add_pre_commit_clean_ups -> Ok.

def run_precommit(n, nvest=0):
    def run(E):
        rt, rtref = new_rt(E)
        pre = mk_miner_state(E, nvest)
        rt.state = pre['st']
        E.ctx.assume(rt.balance >= pre['pcd'] + pre['lf'] + pre['ip'])
        E.ctx.assume(z3.And(rt.epoch >= 0, rt.epoch < 2**40))
        E.ctx.assume(z3.Not(C13.bz(C13.view(E, pre['info'])['pw_some'])))
        env = E.ctx.env
        env['balance0'] = rt.balance
        ST = SF()
        env['cron_active0'] = fget(E, pre['st'], ST['deadline_cron_active'], 'bool')
        E.ctx.env['lazy_vec_lens'] = [0, 1]
        lz = lambda nm, ty: (lambda E2, c: ok(LazyV(nm, ty), c.dest_ty))
        E.cuts['request_current_epoch_block_reward'] = lz('epoch_reward', 'fil_actors_runtime::builtin::reward::ThisEpochRewardReturn')
        E.cuts['request_current_total_power'] = lz('power_total', 'ext::power::CurrentTotalPowerReturn')
        secs = [LazyV('precommit%d' % i, 'types::SectorPreCommitInfoInner') for i in range(n)]
        E.cuts['verify_deals'] = lambda E2, c: ok(StructV('ext::market::VerifyDealsForActivationReturn', {0: VecV([none('Option<Cid>') for _ in range(n)], 'Vec<Option<Cid>>')}), c.dest_ty)
        dep = z3.Int('deposit_per_sector')
        E.ctx.assume(dep >= 0)
        env['dep'] = dep
        for pre_ in ('', 'monies::', 'policy::'):
            E.cuts[pre_ + 'pre_commit_deposit_for_power'] = lambda E2, c: BigV(dep)
        E.cuts['State::allocate_sector_numbers'] = lambda E2, c: ok(UNIT, c.dest_ty)
        captured = env.setdefault('precommits', [])

        def cut_put(E2, c):
            v = E2.deref(c.args[2])
            captured.extend([E2.deref(x) for x in v.items])
            return ok(UNIT, c.dest_ty)
        E.cuts['State::put_precommitted_sectors'] = cut_put
        E.cuts['State::add_pre_commit_clean_ups'] = lambda E2, c: ok(UNIT, c.dest_ty)
        from .miner_money import install_bib_cut
        install_bib_cut(E)
        rt.send_hook = lambda E2, rt2, rec, nm: ('ok', None)
        env['n'] = n
        fn = find_fn(E, MINER, 'pre_commit_sector_batch_inner')
        return E.run_function(fn, [rtref, VecV(secs, 'Vec<SectorPreCommitInfoInner>')]), rt
    return run


def props_precommit(E, res):
    from .miner_money import bib_prop
    env = res.ctx.env
    rt, pre = env['rt'], env['pre']
    ctx = res.ctx
    if res.kind != 'return':
        return [tagged('ALL', 'no panic (%s)' % str(res.info)[:60], False)]
    if is_err(res.value):
        return [bib_prop(res)]
    ST = SF()
    PC = Fields('actors/miner/src/types.rs', 'SectorPreCommitOnChainInfo')
    led = ledgers(E, rt.state)
    n = env['n']
    total = env['dep'] * n
    burns, pledge, others = classify_sends(rt, ctx)
    burnt = sum(s.value for s in burns) if burns else 0
    caps = env.get('precommits', [])
    P = [tagged('C03', 'one pre-commitment is stored per sector of the batch', len(caps) == n),
         tagged('C03', 'the pre-commit deposit total grows by exactly the deposits recorded with the new pre-commitments',
                z3.And(led['pcd'] == pre['pcd'] + total, (sum(big(E, fget(E, c_, PC['pre_commit_deposit'], TOKEN)) for c_ in caps) if caps else 0) == total)),
         tagged('C15', 'a pre-commit goes through only with the fee debt repaid in full (burnt)', z3.And(led['fd'] == 0, burnt == pre['fd'])),
         tagged('C01', 'the deposit comes out of funds that are free after the debt is repaid: the miner stays solvent', solvency(rt, led)),
         tagged('C03', 'pledge and vesting ledgers are untouched by a pre-commit', z3.And(led['ip'] == pre['ip'], led['lf'] == pre['lf']))]
    for s in others:
        P.append(tagged('C01', 'only the burn carries value', s.value == 0))
    active1 = fget(E, rt.state, ST['deadline_cron_active'], 'bool')
    a0 = env['cron_active0']
    a0 = a0 if is_sym(a0) else z3.BoolVal(bool(a0))
    enrol = [s for s in others if implied(ctx, b_and(s.to.proto == 0, s.to.key == POWER, zv(s.method) == ENROLL_CRON))]
    P.append(tagged('C05', 'after a pre-commit the proving-deadline cron is active', active1 if is_sym(active1) else bool(active1)))
    P.append(tagged('C05', 'the callback is enrolled exactly when the cron was not active before (never a second one)', z3.BoolVal(len(enrol) == 1) == z3.Not(a0)))
    return P


def build_precommit(pid, tier):
    wrap = lambda f: (lambda E, res: for_property(pid, f(E, res)))
    return [Obligation('miner.pre_commit_sector_batch[sectors=%d]' % n, run_precommit(n), wrap(props_precommit),
                       descr='pre-commit: fee debt repaid in full first, deposits recorded = deposit total increase, solvent, pledge/vesting untouched, cron activated (one callback enrolled iff it was inactive)',
                       bounds='%d sector(s); CUTS: reward/power queries, verify_deals, pre_commit_deposit_for_power (arbitrary amount), allocate_sector_numbers, put_precommitted_sectors (captured), add_pre_commit_clean_ups; sends succeed' % n,
                       max_paths=400000, wall_s=400 if tier == 'quick' else 1500)
            for n in ([1] if tier == 'quick' else [1, 2])]


# ---- declare_faults_recovered: blocked by fee debt until it is repaid (C15); credits no power (C02) -----------------------
# CUTS (declared): DeadlineSectorMap::add / check (parameter bookkeeping) -> Ok with one (deadline, partition) entry,
# State::load_deadlines / save_deadlines, Sectors::load, Deadlines::load_deadline / update_deadline,
# Deadline::declare_faults_recovered -> Ok, validate_fr_declaration_deadline -> arbitrary verdict.

def run_recover(nvest=0):
    def run(E):
        rt, rtref = new_rt(E)
        pre = mk_miner_state(E, nvest)
        rt.state = pre['st']
        E.ctx.assume(rt.balance >= pre['pcd'] + pre['lf'] + pre['ip'])
        E.ctx.assume(z3.And(rt.epoch >= 0, rt.epoch < 2**40))
        E.ctx.assume(z3.Not(C13.bz(C13.view(E, pre['info'])['pw_some'])))
        env = E.ctx.env
        env['balance0'] = rt.balance
        lz = lambda nm, ty: (lambda E2, c: ok(LazyV(nm, ty), c.dest_ty))
        okc = lambda E2, c: ok(UNIT, c.dest_ty)
        dl = E.materialize('u64', 'decl.deadline')
        E.ctx.assume(dl.v < 48)

        def dsm_new(E2, c):
            d = models_std.DictM('BTreeMap')
            return StructV('deadline_state::DeadlineSectorMap', {0: ObjV(d)})
        E.cuts['DeadlineSectorMap::add'] = okc
        E.cuts['DeadlineSectorMap::check'] = okc
        E.cuts['DeadlineSectorMap::iter'] = lambda E2, c: ObjV(models_core.ListIter([StructV('tuple', {0: dl, 1: RefV(Cell(LazyV('partition_map', 'deadline_state::PartitionSectorMap'), 'pm'), (), True)})]))
        E.cuts['State::load_deadlines'] = lz('deadlines', 'deadlines::Deadlines')
        E.cuts['State::save_deadlines'] = okc
        E.cuts['Sectors::load'] = lz('sectors', 'sectors::Sectors')
        E.cuts['Deadlines::load_deadline'] = lz('dl', 'deadline_state::Deadline')
        E.cuts['Deadlines::update_deadline'] = okc
        E.cuts['Deadline::declare_faults_recovered'] = okc
        E.cuts['validate_fr_declaration_deadline'] = lambda E2, c: (ok(UNIT, c.dest_ty) if E2.ctx.branch(z3.Bool('declaration_in_time')) else err(OpaqueV('anyhow'), c.dest_ty))
        from .miner_money import install_bib_cut
        install_bib_cut(E)
        rt.send_hook = lambda E2, rt2, rec, nm: ('ok', None)
        decl = StructV('types::RecoveryDeclaration', {0: dl, 1: E.materialize('u64', 'decl.partition'), 2: models_fvm.BitFieldV('decl.sectors')})
        params = StructV('types::DeclareFaultsRecoveredParams', {0: VecV([decl], 'Vec<RecoveryDeclaration>')})
        fn = find_fn(E, MINER, 'declare_faults_recovered', 'src/lib.rs')
        return E.run_function(fn, [rtref, params]), rt
    return run


def props_recover(E, res):
    from .miner_money import bib_prop
    env = res.ctx.env
    rt, pre = env['rt'], env['pre']
    ctx = res.ctx
    if res.kind != 'return':
        return [tagged('ALL', 'no panic (%s)' % str(res.info)[:60], False)]
    led = ledgers(E, rt.state) if rt.state is not None else None
    if is_err(res.value):
        return [bib_prop(res), tagged('C15', 'a refused recovery declaration commits nothing', rt.commits == 0)]
    burns, pledge, others = classify_sends(rt, ctx)
    burnt = sum(s.value for s in burns) if burns else 0
    unlocked = env['balance0'] - pre['lf'] - pre['pcd'] - pre['ip']
    P = [tagged('C15', 'a recovery declaration goes through only with the fee debt repaid in full and burnt (fee debt blocks recovery declarations)',
                z3.And(led['fd'] == 0, burnt == pre['fd'], unlocked >= pre['fd'])),
         tagged('C02', 'declaring sectors recovered credits no power (power returns only with a proof)', all(implied(ctx, b_not(b_and(s.to.key == POWER, zv(s.method) == UPDATE_CLAIMED_POWER))) for s in rt.sends)),
         tagged('C03', 'the ledgers other than the fee debt are untouched', z3.And(led['ip'] == pre['ip'], led['pcd'] == pre['pcd'], led['lf'] == pre['lf'])),
         tagged('C01', 'miner stays solvent', solvency(rt, led))]
    return P


def build_recover(pid, tier):
    wrap = lambda f: (lambda E, res: for_property(pid, f(E, res)))
    return [Obligation('miner.declare_faults_recovered', run_recover(0), wrap(props_recover),
                       descr='recovery declaration: only with the fee debt repaid in full (burnt); no power credited; other ledgers untouched',
                       bounds='one declaration; CUTS: parameter map, deadline / sector loading, Deadline::declare_faults_recovered, declaration-window check (arbitrary verdict); sends succeed',
                       max_paths=100000, wall_s=300)]


# ---- submit_windowed_post: power changes exactly as the recorded proof says, only for the open deadline ----------------------
# CUTS (declared): Sectors::load / load_for_proof, State::load_deadlines / save_deadlines, Deadlines::load_deadline /
# update_deadline, Deadline::record_proven_sectors (arbitrary PoStResult, recorded; its own content is decided in C02's
# deadline-level obligation), Deadline::record_post_proofs, verify_windowed_post (arbitrary verdict), the proof-type
# tables, chain randomness (uninterpreted) and its comparison with the submitted value (arbitrary).

def run_wpost(E):
    rt, rtref = new_rt(E)
    pre = mk_miner_state(E, 0)
    rt.state = pre['st']
    E.ctx.assume(rt.balance >= pre['pcd'] + pre['lf'] + pre['ip'])
    E.ctx.assume(z3.And(rt.epoch >= 0, rt.epoch < 2**40))
    E.ctx.assume(z3.Not(C13.bz(C13.view(E, pre['info'])['pw_some'])))
    env = E.ctx.env
    ST = SF()
    pps = fget(E, pre['st'], ST['proving_period_start'], 'i64').v
    cdl = fget(E, pre['st'], ST['current_deadline'], 'u64').v
    E.ctx.assume(z3.And(pps > -2880, pps < 2**40, cdl < 48))
    env.update(dict(pps=pps, cdl=cdl, balance0=rt.balance))
    # CUT (declared): State::deadline_info -> the current deadline as decided by the clock obligation
    # (miner.State::deadline_info [clock]): window index in [0,48), open <= epoch < close = open + 60, challenge = open - 20,
    # fault cutoff = open - 70, period start = open - 60 * index
    DI = Fields('actors/miner/src/deadline_info.rs', 'DeadlineInfo')

    def cut_di(E2, c):
        idx, op = z3.Int('clock.window'), z3.Int('clock.open')
        E2.ctx.assume(z3.And(idx >= 0, idx < 48, op <= rt.epoch, rt.epoch < op + 60, op > -2**41, op - 60 * idx >= -2880))
        env.update(dict(di_index=idx, di_open=op))
        I = lambda v, ty='i64': IntV(v, ty)
        return StructV('deadline_info::DeadlineInfo', {DI['current_epoch']: I(rt.epoch), DI['period_start']: I(op - 60 * idx), DI['index']: I(idx, 'u64'), DI['open']: I(op),
                                                       DI['close']: I(op + 60), DI['challenge']: I(op - 20), DI['fault_cutoff']: I(op - 70),
                                                       DI['w_post_period_deadlines']: I(48, 'u64'), DI['w_post_proving_period']: I(2880), DI['w_post_challenge_window']: I(60),
                                                       DI['w_post_challenge_lookback']: I(20), DI['fault_declaration_cutoff']: I(70)})
    E.cuts['State::deadline_info'] = cut_di
    from .C13 import _f
    MIf = _f()[1]
    # representation invariant of MinerInfo (set once from the proof-type table by MinerInfo::new): partitions have sectors
    E.ctx.assume(fget(E, pre['info'], MIf['window_post_partition_sectors'], 'u64').v > 0)
    lz = lambda nm, ty: (lambda E2, c: ok(LazyV(nm, ty), c.dest_ty))
    okc = lambda E2, c: ok(UNIT, c.dest_ty)
    E.cuts['Sectors::load'] = lz('sectors', 'sectors::Sectors')
    E.cuts['Sectors::load_for_proof'] = lambda E2, c: ok(VecV([], 'Vec<SectorOnChainInfo>'), c.dest_ty)
    E.cuts['State::load_deadlines'] = lz('deadlines', 'deadlines::Deadlines')
    E.cuts['State::save_deadlines'] = okc
    E.cuts['Deadlines::load_deadline'] = lz('dl', 'deadline_state::Deadline')
    E.cuts['Deadlines::update_deadline'] = okc
    E.cuts['check_valid_post_proof_type'] = lambda E2, c: (ok(UNIT, c.dest_ty) if E2.ctx.branch(z3.Bool('post_proof_type_allowed')) else err(models_fvm.actor_error(E2, 16), c.dest_ty))
    PR = Fields('actors/miner/src/deadline_state.rs', 'PoStResult')

    def cut_record(E2, c):
        pd = (z3.Int('post.power_delta.raw'), z3.Int('post.power_delta.qa'))
        rec = (z3.Int('post.recovered.raw'), z3.Int('post.recovered.qa'))
        E2.ctx.assume(z3.And(rec[0] >= 0, rec[1] >= 0))
        env['post'] = dict(pd=pd, rec=rec)
        proven_any = E2.ctx.fresh_bool('post.proves_something')
        secs = models_fvm.BitFieldV('post.sectors')
        ign = models_fvm.BitFieldV('post.ignored')
        E2.ctx.memo[('subset', 'post.ignored', 'post.sectors')] = True
        E2.ctx.assume(z3.And(z3.Int('post.sectors#card') >= z3.Int('post.ignored#card'), z3.Int('post.ignored#card') >= 0))
        zero = _pp(z3.IntVal(0), z3.IntVal(0))
        res = StructV('deadline_state::PoStResult', {PR['power_delta']: _pp(*pd), PR['new_faulty_power']: _pp(z3.Int('post.nf.raw'), z3.Int('post.nf.qa')),
                                                    PR['retracted_recovery_power']: _pp(z3.Int('post.rr.raw'), z3.Int('post.rr.qa')), PR['recovered_power']: _pp(*rec),
                                                    PR['sectors']: secs, PR['ignored_sectors']: ign, PR['partitions']: models_fvm.BitFieldV('post.partitions')})
        return ok(res, c.dest_ty)
    E.cuts['Deadline::record_proven_sectors'] = cut_record

    def cut_rpp(E2, c):
        env['optimistic'] = True
        return ok(UNIT, c.dest_ty)
    E.cuts['Deadline::record_post_proofs'] = cut_rpp

    def cut_verify(E2, c):
        b = E2.ctx.fresh_bool('proof_valid')
        env['verified'] = b
        return ok(b, c.dest_ty)
    E.cuts['verify_windowed_post'] = cut_verify
    E.cuts['<Randomness as PartialEq>::ne'] = lambda E2, c: E2.ctx.fresh_bool('randomness_mismatch')
    E.cuts['<Randomness as PartialEq>::eq'] = lambda E2, c: E2.ctx.fresh_bool('randomness_match')
    from .miner_money import install_bib_cut
    install_bib_cut(E)
    rt.send_hook = lambda E2, rt2, rec, nm: ('ok', None)
    WP = Fields('actors/miner/src/types.rs', 'SubmitWindowedPoStParams')
    dl = E.materialize('u64', 'params.deadline')
    cce = E.materialize('i64', 'params.chain_commit_epoch')
    proof = LazyV('proof0', 'fvm_shared::sector::PoStProof')
    part = StructV('types::PoStPartition', {0: E.materialize('u64', 'part0.index'), 1: models_fvm.BitFieldV('part0.skipped')})
    params = StructV('types::SubmitWindowedPoStParams', {WP['deadline']: dl, WP['partitions']: VecV([part], 'Vec<PoStPartition>'), WP['proofs']: VecV([proof], 'Vec<PoStProof>'),
                                                         WP['chain_commit_epoch']: cce, WP['chain_commit_rand']: StructV('fvm_shared::randomness::Randomness', {0: models_fvm.SymBytes('commit_rand')})})
    env.update(dict(pdl=dl.v, cce=cce.v))
    fn = find_fn(E, MINER, 'submit_windowed_post')
    return E.run_function(fn, [rtref, params]), rt


def props_wpost(E, res):
    from .miner_money import bib_prop
    env = res.ctx.env
    rt, pre = env['rt'], env['pre']
    ctx = res.ctx
    if res.kind != 'return':
        return [tagged('ALL', 'no panic (%s)' % str(res.info)[:60], False)]
    if is_err(res.value):
        return [bib_prop(res), tagged('C02', 'a refused proof commits nothing and changes no power', z3.BoolVal(rt.commits == 0 and len(rt.sends) == 0))]
    post = env.get('post')
    if post is None:
        return [tagged('C02', 'an accepted proof was recorded in its deadline', False)]
    P = []
    ups = [s for s in rt.sends if implied(ctx, b_and(s.to.key == POWER, zv(s.method) == UPDATE_CLAIMED_POWER))]
    zero_delta = z3.And(post['pd'][0] == 0, post['pd'][1] == 0)
    if ups:
        s = ups[0]
        obj = s.params.obj if isinstance(s.params, BlockV) else None
        if obj is None:
            P.append(tagged('C02', 'the power update carries typed params', False))
        else:
            P.append(tagged('C02', "the miner's claim moves by exactly the power delta of the recorded proof (one update)",
                            b_and(len(ups) == 1, big(E, fget(E, obj, 0, 'BigInt')) == post['pd'][0], big(E, fget(E, obj, 1, 'BigInt')) == post['pd'][1])))
    else:
        P.append(tagged('C02', 'no power update is sent only when the recorded proof changes no power', zero_delta))
    # only the open deadline, with a commit epoch inside its challenge window
    # the open deadline is a function of the proving-period offset and the clock alone (48 windows of 60 epochs per 2880-epoch period)
    if 'di_index' not in env:
        return [tagged('C02', 'an accepted proof was checked against the deadline clock', False)]
    P.append(tagged('C02', 'a proof is accepted only for the deadline whose window contains the current epoch', env['pdl'] == env['di_index']))
    P.append(tagged('C02', 'the proof commits to a chain epoch inside the challenge look-back of that window and before now', z3.And(env['cce'] >= env['di_open'] - 20, env['cce'] < rt.epoch)))
    rec_zero = z3.And(post['rec'][0] == 0, post['rec'][1] == 0)
    ver = env.get('verified')
    if env.get('optimistic'):
        P.append(tagged('C02', 'a proof is accepted optimistically only when it recovers no power', rec_zero))
    else:
        P.append(tagged('C02', 'a proof that recovers power is verified at once and is valid', z3.And(z3.Not(rec_zero), ver) if ver is not None else False))
    led = ledgers(E, rt.state)
    P.append(tagged('C03', 'a proof moves no collateral', z3.And(led['ip'] == pre['ip'], led['pcd'] == pre['pcd'], led['lf'] == pre['lf'], led['fd'] == pre['fd'])))
    return P


def build_wpost(pid, tier):
    wrap = lambda f: (lambda E, res: for_property(pid, f(E, res)))
    return [Obligation('miner.submit_windowed_post', run_wpost, wrap(props_wpost),
                       descr="Window PoSt: accepted only for the open deadline with a commit epoch in its challenge window; the claim moves by exactly the recorded proof's power delta; recovering proofs are verified at once, others accepted optimistically; no collateral moves",
                       bounds='one proof, one partition; CUTS: State::deadline_info (contract decided by the clock obligation), deadline / sector loading, record_proven_sectors (arbitrary result), proof verification (arbitrary verdict), proof-type tables, randomness comparison; sends succeed',
                       max_paths=200000, wall_s=600)]


# ---- the deadline clock: State::deadline_info as a function of (proving-period offset, epoch) ---------------------------------

def run_clock(E):
    rt, rtref = new_rt(E)
    ST = SF()
    st = StructV('State', {}, lazy='st')
    pps = fget(E, st, ST['proving_period_start'], 'i64').v
    # clock in the oracle's coordinates (a change of variables, see run_wpost): every (pps, epoch) has exactly one decomposition
    pa, pb = z3.Int('clock.pps_period'), z3.Int('clock.pps_offset')
    k, d, m = z3.Int('clock.period'), z3.Int('clock.window'), z3.Int('clock.into_window')
    E.ctx.assume(z3.And(pps == 2880 * pa + pb, pb >= 0, pb < 2880, pps >= 0, pps < 2**40))
    E.ctx.assume(z3.And(d >= 0, d < 48, m >= 0, m < 60))
    epoch = pps + 2880 * k + 60 * d + m
    E.ctx.assume(z3.And(epoch >= 0, epoch < 2**40))
    E.ctx.env.update(dict(pps=pps, k=k, d=d, m=m, epoch=epoch))
    cell = Cell(st, 'st')
    pol = E.do_call(None, '<Policy as Default>::default', [], 'Policy')
    fn = find_fn(E, MINER, 'deadline_info', 'state')
    return E.run_function(fn, [RefV(cell, ()), RefV(Cell(pol, 'policy'), ()), IntV(epoch, 'i64')]), rt


def props_clock(E, res):
    env = res.ctx.env
    if res.kind != 'return':
        return [tagged('ALL', 'no panic (%s)' % str(res.info)[:60], False)]
    DI = Fields('actors/miner/src/deadline_info.rs', 'DeadlineInfo')
    di = E.deref(res.value)
    g = lambda f, ty='i64': zv(fget(E, di, DI[f], ty))
    open_ = env['epoch'] - env['m']
    return [tagged('C02', 'the current deadline is the window that contains the epoch', g('index', 'u64') == env['d']),
            tagged('C02', 'it opens at the start of that window and closes 60 epochs later', z3.And(g('open') == open_, g('close') == open_ + 60)),
            tagged('C02', 'its challenge epoch is 20 epochs before it opens; faults must be declared 70 epochs before', z3.And(g('challenge') == open_ - 20, g('fault_cutoff') == open_ - 70)),
            tagged('C02', 'its proving period starts at the stored offset plus whole periods', g('period_start') == env['pps'] + 2880 * env['k']),
            tagged('C02', 'it is evaluated at the given epoch', g('current_epoch') == env['epoch'])]


def build_clock(pid, tier):
    wrap = lambda f: (lambda E, res: for_property(pid, f(E, res)))
    return [Obligation('miner.State::deadline_info [clock]', run_clock, wrap(props_clock),
                       descr='the deadline clock as a function of the stored proving-period offset and the epoch: index, open, close, challenge, fault cutoff and period start of the current deadline',
                       bounds='epochs and offsets in [0, 2^40); default network policy (48 windows of 60 epochs, look-back 20, fault cutoff 70)', max_paths=2000, fresh_solver=True)]


# ---- declare_faults: declared faults lose their power at once -----------------------------------------------------------------
# CUTS (declared): the parameter map (DeadlineSectorMap add / check / iter: 1 or 2 deadlines), declaration_deadline_info (arbitrary
# DeadlineInfo, shape as decided by the clock obligation), validate_fr_declaration_deadline (arbitrary verdict), deadline / sector
# loading and saving, Deadline::record_faults -> arbitrary power delta (recorded).

def run_declare_faults(ndl):
    def run(E):
        rt, rtref = new_rt(E)
        pre = mk_miner_state(E, 0)
        rt.state = pre['st']
        E.ctx.assume(rt.balance >= pre['pcd'] + pre['lf'] + pre['ip'])
        E.ctx.assume(z3.And(rt.epoch >= 0, rt.epoch < 2**40))
        E.ctx.assume(z3.Not(C13.bz(C13.view(E, pre['info'])['pw_some'])))
        env = E.ctx.env
        env['balance0'] = rt.balance
        ST = SF()
        pps = fget(E, pre['st'], ST['proving_period_start'], 'i64').v
        E.ctx.assume(z3.And(pps >= 0, pps < 2**40))
        lz = lambda nm, ty: (lambda E2, c: ok(LazyV(E2.ctx.fresh_name(nm), ty), c.dest_ty))
        okc = lambda E2, c: ok(UNIT, c.dest_ty)
        dls = [E.materialize('u64', 'decl%d.deadline' % i) for i in range(ndl)]
        for a, b in zip(dls, dls[1:]):
            E.ctx.assume(a.v < b.v)
        for d in dls:
            E.ctx.assume(d.v < 48)
        E.cuts['DeadlineSectorMap::add'] = okc
        E.cuts['DeadlineSectorMap::check'] = okc
        E.cuts['DeadlineSectorMap::iter'] = lambda E2, c: ObjV(models_core.ListIter([StructV('tuple', {0: d, 1: RefV(Cell(LazyV('partition_map%d' % i, 'deadline_state::PartitionSectorMap'), 'pm'), (), True)}) for i, d in enumerate(dls)]))
        E.cuts['State::load_deadlines'] = lz('deadlines', 'deadlines::Deadlines')
        E.cuts['State::save_deadlines'] = okc
        E.cuts['Sectors::load'] = lz('sectors', 'sectors::Sectors')
        E.cuts['Deadlines::load_deadline'] = lz('dl', 'deadline_state::Deadline')
        E.cuts['Deadlines::update_deadline'] = okc
        E.cuts['State::current_proving_period_start'] = lambda E2, c: E2.materialize('i64', E2.ctx.fresh_name('period_start'))
        DI = Fields('actors/miner/src/deadline_info.rs', 'DeadlineInfo')

        def cut_ddi(E2, c):
            op = z3.Int(E2.ctx.fresh_name('target.open'))
            E2.ctx.assume(z3.And(op > -2**41, op < 2**41))
            I = lambda v, ty='i64': IntV(v, ty)
            idx = zv(c.args[2])
            di = StructV('deadline_info::DeadlineInfo', {DI['current_epoch']: I(rt.epoch), DI['period_start']: I(op - 60 * idx), DI['index']: I(idx, 'u64'), DI['open']: I(op),
                                                         DI['close']: I(op + 60), DI['challenge']: I(op - 20), DI['fault_cutoff']: I(op - 70),
                                                         DI['w_post_period_deadlines']: I(48, 'u64'), DI['w_post_proving_period']: I(2880), DI['w_post_challenge_window']: I(60),
                                                         DI['w_post_challenge_lookback']: I(20), DI['fault_declaration_cutoff']: I(70)})
            return ok(di, c.dest_ty)
        E.cuts['declaration_deadline_info'] = cut_ddi
        verdicts = env.setdefault('in_time', [])

        def cut_validate(E2, c):
            b = E2.ctx.fresh_bool('declaration_in_time')
            verdicts.append(b)
            return ok(UNIT, c.dest_ty) if E2.ctx.branch(b) else err(OpaqueV('anyhow'), c.dest_ty)
        E.cuts['validate_fr_declaration_deadline'] = cut_validate
        faults = env.setdefault('faults', [])

        def cut_record(E2, c):
            k = len(faults)
            pd = (z3.Int('faults%d.power.raw' % k), z3.Int('faults%d.power.qa' % k))
            faults.append(pd)
            return ok(_pp(*pd), c.dest_ty)
        E.cuts['Deadline::record_faults'] = cut_record
        from .miner_money import install_bib_cut
        install_bib_cut(E)
        rt.send_hook = lambda E2, rt2, rec, nm: ('ok', None)
        decls = [StructV('types::FaultDeclaration', {0: d, 1: E.materialize('u64', 'decl%d.partition' % i), 2: models_fvm.BitFieldV('decl%d.sectors' % i)}) for i, d in enumerate(dls)]
        params = StructV('types::DeclareFaultsParams', {0: VecV(decls, 'Vec<FaultDeclaration>')})
        env['ndl'] = ndl
        fn = find_fn(E, MINER, 'declare_faults', 'src/lib.rs')
        return E.run_function(fn, [rtref, params]), rt
    return run


def props_declare_faults(E, res):
    from .miner_money import bib_prop
    env = res.ctx.env
    rt, pre = env['rt'], env['pre']
    ctx = res.ctx
    if res.kind != 'return':
        return [tagged('ALL', 'no panic (%s)' % str(res.info)[:60], False)]
    if is_err(res.value):
        return [bib_prop(res), tagged('C02,C15', 'a refused fault declaration commits nothing and changes no power', z3.BoolVal(rt.commits == 0 and len(rt.sends) == 0))]
    faults = env.get('faults', [])
    P = [tagged('C02', 'every declared deadline has its faults recorded', len(faults) == env['ndl']),
         tagged('C02,C15', 'faults are accepted only inside the declaration window of their deadline', z3.And(*env.get('in_time', [])) if env.get('in_time') else z3.BoolVal(False))]
    tot = (sum(f[0] for f in faults) if faults else 0, sum(f[1] for f in faults) if faults else 0)
    ups = [s for s in rt.sends if implied(ctx, b_and(s.to.key == POWER, zv(s.method) == UPDATE_CLAIMED_POWER))]
    if ups:
        obj = ups[0].params.obj if isinstance(ups[0].params, BlockV) else None
        if obj is None:
            P.append(tagged('C02', 'the power update carries typed params', False))
        else:
            P.append(tagged('C02', "declared faults lose their power at once: the miner's claim moves by exactly the sum of the recorded fault power deltas, in one update",
                            b_and(len(ups) == 1, big(E, fget(E, obj, 0, 'BigInt')) == tot[0], big(E, fget(E, obj, 1, 'BigInt')) == tot[1])))
    else:
        P.append(tagged('C02', 'no power update is sent only when the declared faults carry no power', z3.And(tot[0] == 0, tot[1] == 0)))
    led = ledgers(E, rt.state)
    P.append(tagged('C03,C15', 'a fault declaration moves no collateral and charges nothing yet (the fee is charged by the deadline cron)',
                    z3.And(led['ip'] == pre['ip'], led['pcd'] == pre['pcd'], led['lf'] == pre['lf'], led['fd'] == pre['fd'], *[s.value == 0 for s in rt.sends])))
    return P


def build_declare_faults(pid, tier):
    wrap = lambda f: (lambda E, res: for_property(pid, f(E, res)))
    return [Obligation('miner.declare_faults[deadlines=%d]' % n, run_declare_faults(n), wrap(props_declare_faults),
                       descr="fault declaration: only inside each deadline's declaration window; the claim falls at once by exactly the sum of the recorded fault power; no collateral moves",
                       bounds='%d declared deadline(s); CUTS: parameter map, declaration_deadline_info, declaration-window check (arbitrary verdict), deadline / sector loading, Deadline::record_faults (arbitrary recorded delta); sends succeed' % n,
                       max_paths=100000, wall_s=300) for n in ([1, 2] if tier == 'quick' else [1, 2, 3])]


# ---- terminate_sectors: terminated sectors lose their power at once and are queued for their termination fee ------------------
# CUTS (declared): the parameter map, deadline_is_mutable (arbitrary verdict), deadline / sector loading and saving,
# Deadline::terminate_sectors -> arbitrary removed power >= 0 (recorded), request_current_epoch_block_reward /
# request_current_total_power (typed answers), process_early_terminations (arbitrary "more work" flag, no effect: decided by its
# own whole-method obligation).

def run_terminate_sectors(ndl):
    def run(E):
        rt, rtref = new_rt(E)
        pre = mk_miner_state(E, 0)
        ST = SF()
        env = E.ctx.env
        # work pending before the call: none, or one deadline already flagged
        if E.ctx.branch(z3.Bool('early_terminations_pending_before')):
            e0 = E.materialize('u64', 'et0.deadline')
            E.ctx.assume(e0.v < 48)
            et0 = models_fvm.BitSetV((e0.v,))
            env['et0'] = [e0.v]
        else:
            et0 = models_fvm.BitSetV(())
            env['et0'] = []
        pre['st'] = E.set_path(pre['st'], [('field', ST['early_terminations'], 'BitField')], et0)
        rt.state = pre['st']
        E.ctx.assume(rt.balance >= pre['pcd'] + pre['lf'] + pre['ip'])
        E.ctx.assume(z3.And(rt.epoch >= 0, rt.epoch < 2**40))
        E.ctx.assume(z3.Not(C13.bz(C13.view(E, pre['info'])['pw_some'])))
        env['balance0'] = rt.balance
        lz = lambda nm, ty: (lambda E2, c: ok(LazyV(E2.ctx.fresh_name(nm), ty), c.dest_ty))
        okc = lambda E2, c: ok(UNIT, c.dest_ty)
        dls = [E.materialize('u64', 'term%d.deadline' % i) for i in range(ndl)]
        for a, b in zip(dls, dls[1:]):
            E.ctx.assume(a.v < b.v)
        for d in dls:
            E.ctx.assume(d.v < 48)
        env['dls'] = [d.v for d in dls]
        E.cuts['DeadlineSectorMap::add'] = okc
        E.cuts['DeadlineSectorMap::check'] = okc
        E.cuts['DeadlineSectorMap::iter'] = lambda E2, c: ObjV(models_core.ListIter([StructV('tuple', {0: d, 1: RefV(Cell(LazyV('partition_map%d' % i, 'deadline_state::PartitionSectorMap'), 'pm'), (), True)}) for i, d in enumerate(dls)]))
        E.cuts['State::load_deadlines'] = lz('deadlines', 'deadlines::Deadlines')
        E.cuts['State::save_deadlines'] = okc
        E.cuts['Sectors::load'] = lz('sectors', 'sectors::Sectors')
        E.cuts['Deadlines::load_deadline'] = lz('dl', 'deadline_state::Deadline')
        E.cuts['Deadlines::update_deadline'] = okc
        E.cuts['State::current_proving_period_start'] = lambda E2, c: E2.materialize('i64', E2.ctx.fresh_name('period_start'))
        E.cuts['State::quant_spec_for_deadline'] = lambda E2, c: LazyV(E2.ctx.fresh_name('quant'), 'quantize::QuantSpec')
        mut = env.setdefault('mutable', [])

        def cut_mutable(E2, c):
            b = E2.ctx.fresh_bool('deadline_is_mutable')
            mut.append(b)
            return b
        E.cuts['deadline_is_mutable'] = cut_mutable
        E.cuts['deadlines::deadline_is_mutable'] = cut_mutable
        removed = env.setdefault('removed', [])

        def cut_term(E2, c):
            k = len(removed)
            pd = (z3.Int('removed%d.raw' % k), z3.Int('removed%d.qa' % k))
            E2.ctx.assume(z3.And(pd[0] >= 0, pd[1] >= 0))
            removed.append(pd)
            return ok(_pp(*pd), c.dest_ty)
        E.cuts['Deadline::terminate_sectors'] = cut_term
        E.cuts['request_current_epoch_block_reward'] = lz('rew', 'ext::reward::ThisEpochRewardReturn')
        E.cuts['request_current_total_power'] = lz('pow', 'ext::power::CurrentTotalPowerReturn')
        E.cuts['process_early_terminations'] = _cut_pet
        from .miner_money import install_bib_cut
        install_bib_cut(E)
        rt.send_hook = lambda E2, rt2, rec, nm: ('ok', None)
        decls = [StructV('types::TerminationDeclaration', {0: d, 1: E.materialize('u64', 'term%d.partition' % i), 2: models_fvm.BitFieldV('term%d.sectors' % i)}) for i, d in enumerate(dls)]
        params = StructV('types::TerminateSectorsParams', {0: VecV(decls, 'Vec<TerminationDeclaration>')})
        fn = find_fn(E, MINER, 'terminate_sectors', 'src/lib.rs')
        return E.run_function(fn, [rtref, params]), rt
    return run


def props_terminate_sectors(E, res):
    from .miner_money import bib_prop
    env = res.ctx.env
    rt, pre = env['rt'], env['pre']
    ctx = res.ctx
    ST = SF()
    if res.kind != 'return':
        return [tagged('ALL', 'no panic (%s)' % str(res.info)[:60], False)]
    if is_err(res.value):
        return [bib_prop(res), tagged('C02,C15', 'a refused termination changes no power', all(implied(ctx, b_not(b_and(s.to.key == POWER, zv(s.method) == UPDATE_CLAIMED_POWER))) for s in rt.sends))]
    removed = env.get('removed', [])
    dls = env['dls']
    P = [tagged('C15,C02', 'every declared deadline has its sectors terminated', len(removed) == len(dls)),
         tagged('C15', 'sectors are terminated only in deadlines that are not being proven (mutable)', z3.And(*env.get('mutable', [])) if env.get('mutable') else z3.BoolVal(False))]
    tot = (sum(r[0] for r in removed) if removed else 0, sum(r[1] for r in removed) if removed else 0)
    ups = [s for s in rt.sends if implied(ctx, b_and(s.to.key == POWER, zv(s.method) == UPDATE_CLAIMED_POWER))]
    if ups:
        obj = ups[0].params.obj if isinstance(ups[0].params, BlockV) else None
        if obj is None:
            P.append(tagged('C02', 'the power update carries typed params', False))
        else:
            P.append(tagged('C02', "terminated sectors lose their power at once: the miner's claim falls by exactly the sum of the removed power, in one update",
                            b_and(len(ups) == 1, big(E, fget(E, obj, 0, 'BigInt')) == -tot[0], big(E, fget(E, obj, 1, 'BigInt')) == -tot[1])))
    else:
        P.append(tagged('C02', 'no power update is sent only when the terminated sectors carried no power', z3.And(tot[0] == 0, tot[1] == 0)))
    # every declared deadline is flagged for fee assessment, earlier flags are kept
    et1 = E.deref(fget(E, rt.state, ST['early_terminations'], 'BitField'))
    bits = list(getattr(et1, 'bits', ()))
    for d in dls + env['et0']:
        P.append(tagged('C15', 'every deadline with terminated sectors is (and stays) flagged for termination-fee assessment', any(implied(ctx, b == d) for b in bits)))
    # the assessment is started at once; when it does not finish and no work was pending before (so no callback exists), a
    # callback for the next epoch continues it
    et2 = []
    for s in rt.sends:
        if implied(ctx, b_and(s.to.key == POWER, zv(s.method) == ENROLL_CRON)):
            obj = s.params.obj if isinstance(s.params, BlockV) else None
            payload = E.deref(fget(E, obj, 1, 'RawBytes')) if obj is not None else None
            pobj = payload.obj if isinstance(payload, BlockV) else None
            if pobj is not None and implied(ctx, fget(E, pobj, 0, 'i64').v == 2):
                et2.append(fget(E, obj, 0, 'i64').v)
    more = env.get('pet_more')
    P.append(tagged('C15', 'termination-fee assessment is started by the call itself', bool(env.get('pet_called'))))
    if more is not None:
        P.append(tagged('C15,C05', 'unfinished assessment is continued by a callback at the next epoch when none was pending',
                        z3.Implies(z3.And(more, z3.BoolVal(len(env['et0']) == 0)), z3.BoolVal(len(et2) >= 1))))
        for e_ in et2:
            P.append(tagged('C15,C05', 'the continuation callback is for the next epoch', e_ == rt.epoch + 1))
    led = ledgers(E, rt.state)
    P.append(tagged('C03', 'the termination call itself moves no collateral (fees and pledge release happen in the assessment step)',
                    z3.And(led['ip'] == pre['ip'], led['pcd'] == pre['pcd'], led['lf'] == pre['lf'], led['fd'] == pre['fd'])))
    return P


def build_terminate_sectors(pid, tier):
    wrap = lambda f: (lambda E, res: for_property(pid, f(E, res)))
    return [Obligation('miner.terminate_sectors[deadlines=%d]' % n, run_terminate_sectors(n), wrap(props_terminate_sectors),
                       descr="sector termination: only in mutable deadlines; the claim falls at once by the removed power; every affected deadline is flagged for fee assessment, which starts in the call and is continued by a next-epoch callback if unfinished",
                       bounds='%d declared deadline(s), none or one deadline flagged before; CUTS: parameter map, deadline_is_mutable (arbitrary verdict), deadline / sector loading, Deadline::terminate_sectors (arbitrary recorded power), network queries, process_early_terminations (arbitrary flag); sends succeed' % n,
                       max_paths=100000, wall_s=300) for n in ([1, 2] if tier == 'quick' else [1, 2, 3])]
