"""C10 — verified claims back quality-adjusted power and obey their terms (registry-side clauses; the miner-side
extension logic needs sector tables and is outside reach, see DESIGN.md)."""
from .verifreg_common import *

PROPERTY = 'C10'
CRATES = ['fil_actors_runtime', 'fil_actor_verifreg', 'fil_actor_miner']


def build(tier):
    O = [Obligation('verifreg.can_claim_alloc', run_can_claim, props_can_claim, descr='claimability predicate = specification', bounds='all fields symbolic', max_paths=2000, expect_ok=False),
         Obligation('verifreg.validate_claim_extension', run_validate_ext, props_validate_ext, descr='extension accepted iff strictly larger term, within policy, claim not expired', bounds='all fields symbolic', max_paths=2000)]
    for n in ([1, 2] if tier == 'quick' else [1, 2, 3]):
        O.append(Obligation('verifreg.extend_claim_terms[terms=%d]' % n, run_extend(n), props_extend,
                            descr='term_max never decreases, stays within policy; only the client; nothing else changes; no removal', bounds='%d terms; claims table symbolic' % n, max_paths=60000))
    for n in ([1, 2] if tier == 'quick' else [1, 2, 3]):
        O.append(Obligation('verifreg.remove_expired_claims[ids=%d]' % n, run_remove_claims(n), props_remove_claims,
                            descr='claims are removed only after term_start + term_max has passed', bounds='%d explicit ids' % n, max_paths=60000))
    O.append(Obligation('verifreg.claim_allocations[1 sector x 1]', run_claim([1]), props_claim,
                        descr='claim created with term_start = now, for the calling provider, copying the allocation terms', bounds='1 sector, 1 claim', max_paths=60000))
    from . import miner_ext, miner_formulas
    O += miner_ext.build_for(tier)
    from . import miner_replica
    O += miner_replica.build_extend_inner('C10', tier)
    O += miner_replica.build_validate_updates('C10', tier)
    O += miner_formulas.build_qa(tier)
    from . import miner_activate
    O += miner_activate.build_for('C10', tier)
    return O
