//! C18 – totality / bounds of the EVM stack (interpreter/stack.rs, contains `unsafe`).
//!
//! Every harness builds a REAL `Stack` with real `push` calls: `d` fully symbolic 256-bit
//! values `vals[0..d]` are pushed, `vals[0]` deepest, `vals[d-1]` on top.  The depth `d` is
//! ENUMERATED over a small window around the interesting boundary (every d in 0..=S+1 for
//! pop_many::<S>) by a loop with a concrete counter: a symbolic `d` makes the Vec length and
//! every heap offset symbolic and CBMC runs out of 12 GB even for d <= 4 (measured), and a
//! symbolic depth 0..=1024 crashed at 13 GB.  The set of (depth, contents) states covered is
//! the same.  CBMC's pointer checks (dereference of dead / out-of-bounds / deallocated
//! objects) are active for the `unsafe` blocks.
//!
//! Order returned by `pop_many::<S>()`: a reference to the S top-most items in STACK-BOTTOM-
//! FIRST order, i.e. `r[0]` is the deepest of the S items (Yellow Paper µs[S-1]) and `r[S-1]`
//! the former top of stack (µs[0]).  (The `rev!` macro in instructions/mod.rs then binds the
//! first macro argument to `r[S-1]` = top of stack.)
use super::util::*;
use crate::interpreter::stack::{STACK_SIZE, Stack};
use crate::{EVM_CONTRACT_STACK_OVERFLOW, EVM_CONTRACT_STACK_UNDERFLOW};
use fil_actors_evm_shared::uints::U256;

/// Exit codes the EVM actor documents for stack faults (actors/evm/src/lib.rs): 36 / 37.
/// The harness compares against the constants generated from the current /repo text AND pins
/// the numeric values.
const UNDERFLOW: u32 = 36;
const OVERFLOW: u32 = 37;

fn pop_many_case<const S: usize>(d: usize) {
    let vals: [U256; MAXV] = any_vals();
    let mut s = build(&vals, d);
    let out: Option<[U256; S]> = match s.pop_many::<S>() {
        Ok(r) => Some(*r),
        Err(e) => {
            assert!(e.exit_code() == EVM_CONTRACT_STACK_UNDERFLOW);
            assert!(e.exit_code().value() == UNDERFLOW);
            None
        }
    };
    match out {
        None => {
            // underflow iff fewer than S items; the stack is left untouched
            assert!(d < S);
            drain_equals(&mut s, &vals, d);
        }
        Some(r) => {
            assert!(d >= S);
            let mut j = 0;
            while j < S {
                // r[j] is the item that was at absolute position d - S + j
                assert!(eq(&r[j], &vals[d - S + j]));
                j += 1;
            }
            // exactly S items were removed, the rest is unchanged
            drain_equals(&mut s, &vals, d - S);
        }
    }
    if d == S + 1 {
        kani::cover!(out.is_some() && vals[0].0[3] != 0);
    }
    if d == S.saturating_sub(1) {
        // underflow witness at depth S-1 (for S = 0 no underflow exists: pop_many::<0> is total)
        kani::cover!(out.is_none() || S == 0);
    }
}

macro_rules! pop_many_harness {
    ($name:ident, $s:literal, $unw:literal) => {
        #[kani::proof]
        #[kani::unwind($unw)]
        fn $name() {
            let mut d = 0;
            while d <= $s + 1 {
                pop_many_case::<$s>(d);
                d += 1;
            }
            kani::cover!(d == $s + 2);
        }
    };
}
// S values used by instructions/mod.rs: 0 (JUMPDEST/INVALID/STOP), 1..=4, 5 (LOG3), 6, 7 (CALL)
pop_many_harness!(c18_stack_pop_many_0, 0, 10);
pop_many_harness!(c18_stack_pop_many_1, 1, 10);
pop_many_harness!(c18_stack_pop_many_2, 2, 10);
pop_many_harness!(c18_stack_pop_many_3, 3, 10);
pop_many_harness!(c18_stack_pop_many_4, 4, 10);
pop_many_harness!(c18_stack_pop_many_5, 5, 10);
pop_many_harness!(c18_stack_pop_many_6, 6, 10);
pop_many_harness!(c18_stack_pop_many_7, 7, 10);

/// `pop` / `drop` / `len` / `is_empty` on every depth 0..=3: LIFO order, underflow error
/// code, a failed operation leaves the stack unchanged.
#[kani::proof]
#[kani::unwind(10)]
fn c18_stack_pop_drop() {
    let mut d = 0;
    while d <= 3 {
        pop_drop_case(d);
        d += 1;
    }
    kani::cover!(d == 4);
}

fn pop_drop_case(d: usize) {
    let vals: [U256; MAXV] = any_vals();
    let mut s = build(&vals, d);
    assert!(s.is_empty() == (d == 0));
    let use_drop: bool = kani::any();
    if use_drop {
        match s.drop() {
            Ok(()) => {
                assert!(d > 0);
                drain_equals(&mut s, &vals, d - 1);
            }
            Err(e) => {
                assert!(d == 0 && e.exit_code().value() == UNDERFLOW);
                assert!(e.exit_code() == EVM_CONTRACT_STACK_UNDERFLOW);
                assert!(s.len() == 0);
            }
        }
    } else {
        match s.pop() {
            Ok(v) => {
                assert!(d > 0 && eq(&v, &vals[d - 1]));
                drain_equals(&mut s, &vals, d - 1);
            }
            Err(e) => {
                assert!(d == 0 && e.exit_code().value() == UNDERFLOW);
                assert!(e.exit_code() == EVM_CONTRACT_STACK_UNDERFLOW);
                assert!(s.len() == 0);
            }
        }
    }
    if d == 3 {
        kani::cover!(use_drop && vals[2].0[0] == 7);
    }
    if d == 0 {
        kani::cover!(!use_drop);
    }
}

/// `dup(i)` for every depth 0..=4 and every i in 1..=5: underflow iff i > depth (stack
/// unchanged), otherwise depth+1 items, new top == item i-1 below the old top, rest unchanged.
/// (A symbolic `i` makes the unsafe read offset symbolic: 11.7 GB / OOM.)
#[kani::proof]
#[kani::unwind(10)]
fn c18_stack_dup() {
    let mut d = 0;
    while d <= 4 {
        let mut i = 1;
        while i <= 5 {
            dup_case(d, i);
            i += 1;
        }
        d += 1;
    }
    kani::cover!(d == 5);
}

fn dup_case(d: usize, i: usize) {
    let vals: [U256; MAXV] = any_vals();
    let mut s = build(&vals, d);
    match s.dup(i) {
        Ok(()) => {
            assert!(i <= d);
            assert!(s.len() == d + 1);
            let top = s.pop();
            assert!(top.is_ok() && eq(&top.unwrap(), &vals[d - i]));
            drain_equals(&mut s, &vals, d);
        }
        Err(e) => {
            assert!(i > d);
            assert!(e.exit_code() == EVM_CONTRACT_STACK_UNDERFLOW && e.exit_code().value() == UNDERFLOW);
            drain_equals(&mut s, &vals, d);
        }
    }
    if d == 4 && i == 4 {
        kani::cover!(vals[0].0[1] == 9);
    }
}

/// `swap_top(i)` for every depth 0..=4 and every i in 0..=5: underflow iff depth <= i
/// (unchanged), otherwise exchanges top with the item i below it and nothing else.
#[kani::proof]
#[kani::unwind(10)]
fn c18_stack_swap_top() {
    let mut d = 0;
    while d <= 4 {
        let mut i = 0;
        while i <= 5 {
            swap_case(d, i);
            i += 1;
        }
        d += 1;
    }
    kani::cover!(d == 5);
}

fn swap_case(d: usize, i: usize) {
    let vals: [U256; MAXV] = any_vals();
    let mut s = build(&vals, d);
    match s.swap_top(i) {
        Ok(()) => {
            assert!(i < d);
            let mut expect = vals;
            let t = expect[d - 1];
            expect[d - 1] = expect[d - 1 - i];
            expect[d - 1 - i] = t;
            drain_equals(&mut s, &expect, d);
        }
        Err(e) => {
            assert!(i >= d);
            assert!(e.exit_code() == EVM_CONTRACT_STACK_UNDERFLOW && e.exit_code().value() == UNDERFLOW);
            drain_equals(&mut s, &vals, d);
        }
    }
    if d == 4 && i == 3 {
        kani::cover!(vals[0].0[1] == 9 && vals[3].0[1] == 5);
    }
}

/// `ensure_one` + `push_unchecked` far below the limit (depth 0..=4): always Ok, LIFO.
#[kani::proof]
#[kani::unwind(10)]
fn c18_stack_ensure_one() {
    let mut d = 0;
    while d <= 4 {
        let vals: [U256; MAXV] = any_vals();
        let mut s = build(&vals, d);
        assert!(s.ensure_one().is_ok());
        let x = any_u256();
        s.push_unchecked(x);
        assert!(s.len() == d + 1);
        let t = s.pop();
        assert!(t.is_ok() && eq(&t.unwrap(), &x));
        drain_equals(&mut s, &vals, d);
        d += 1;
    }
    kani::cover!(d == 5);
}

/// Crossing the initial Vec capacity (INITIAL_STACK_SIZE = 32): 31 constant items, then
/// symbolic pushes / dup across the reallocation; contents survive the move.
#[kani::proof]
#[kani::unwind(40)]
fn c18_stack_realloc() {
    let mut s = Stack::new();
    let mut i = 0;
    while i < 31 {
        s.push_unchecked(U256([i as u64, 0, 0, 0]));
        i += 1;
    }
    let a = any_u256();
    let b = any_u256();
    assert!(s.push(a).is_ok()); // 32 = capacity
    assert!(s.dup(1).is_ok()); // 33: `reserve(1)` inside dup reallocates
    assert!(s.push(b).is_ok()); // 34
    assert!(s.swap_top(2).is_ok()); // b <-> a(original)
    assert!(s.len() == 34);
    let r = *s.pop_many::<3>().unwrap();
    assert!(eq(&r[0], &b) && eq(&r[1], &a) && eq(&r[2], &a));
    let t = s.pop().unwrap();
    assert!(same(&t, [30, 0, 0, 0]));
    assert!(s.len() == 30);
    kani::cover!(a.0[3] != 0 && b.0[0] != a.0[0]);
}

/// Yellow Paper 9.1 stack limit.  A real stack of 1023/1024 words is beyond CBMC (1022 x
/// push_unchecked + unwind 1030: abort at the 12 GB cap after 5 min; a pre-sized 32 KB buffer:
/// CBMC aborts while bit-blasting), so the overflow LOGIC is checked on `stack_scaled`: the
/// current text of stack.rs with the single line `pub const STACK_SIZE: usize = 1024;`
/// rewritten to 6 by build.rs, and the VALUE 1024 of the real constant is asserted here.
/// With limit-2, limit-1, limit words on the stack: `push`, `ensure_one`, `dup(1)` succeed iff
/// depth < limit, report EVM_CONTRACT_STACK_OVERFLOW (37) otherwise, never exceed the limit
/// and leave the stack unchanged on failure; `swap_top`/`pop` still work on a full stack.
#[kani::proof]
#[kani::unwind(10)]
fn c18_stack_push_limit() {
    use crate::interpreter::stack_scaled as sc;
    assert!(STACK_SIZE == 1024);
    assert!(sc::STACK_SIZE == 6);
    let mut d = sc::STACK_SIZE - 2;
    while d <= sc::STACK_SIZE {
        let mut which = 0;
        while which < 2 {
            limit_case(d, which == 0);
            which += 1;
        }
        d += 1;
    }
    kani::cover!(d == 7);
}

fn limit_case(d: usize, which: bool) {
    use crate::interpreter::stack_scaled as sc;
    let vals: [U256; MAXV] = any_vals();
    let mut s = sc::Stack::new();
    let mut i = 0;
    while i < MAXV {
        if i < d {
            assert!(s.push(vals[i]).is_ok());
        }
        i += 1;
    }
    assert!(s.len() == d);
    let full = d >= sc::STACK_SIZE;
    match s.ensure_one() {
        Ok(()) => assert!(!full),
        Err(e) => assert!(full && e.exit_code() == EVM_CONTRACT_STACK_OVERFLOW && e.exit_code().value() == OVERFLOW),
    }
    let x = any_u256();
    if which {
        match s.push(x) {
            Ok(()) => {
                assert!(!full && s.len() == d + 1);
                let t = s.pop();
                assert!(t.is_ok() && eq(&t.unwrap(), &x));
            }
            Err(e) => {
                assert!(full && e.exit_code() == EVM_CONTRACT_STACK_OVERFLOW && e.exit_code().value() == OVERFLOW);
            }
        }
    } else {
        match s.dup(1) {
            Ok(()) => {
                assert!(!full && s.len() == d + 1);
                let t = s.pop();
                assert!(t.is_ok() && eq(&t.unwrap(), &vals[d - 1]));
            }
            Err(e) => {
                assert!(full && e.exit_code() == EVM_CONTRACT_STACK_OVERFLOW && e.exit_code().value() == OVERFLOW);
            }
        }
    }
    assert!(s.len() == d && s.len() <= sc::STACK_SIZE);
    // a full stack can still be permuted and popped; contents are intact
    assert!(s.swap_top(1).is_ok());
    let mut k = MAXV;
    let mut expect = vals;
    expect[d - 1] = vals[d - 2];
    expect[d - 2] = vals[d - 1];
    while k > 0 {
        k -= 1;
        if k < d {
            let v = s.pop();
            assert!(v.is_ok() && eq(&v.unwrap(), &expect[k]));
        }
    }
    assert!(s.is_empty());
    if full {
        kani::cover!(vals[5].0[2] == 3);
    }
}
