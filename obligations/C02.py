"""C02 — power is credited exactly ... (POWER-ACTOR CLAUSE ONLY, see DESIGN.md §2 C02 / §3).

Inductive step of 'network totals = sum of per-miner claims under the consensus-minimum rule': update_claimed_power
(whole method, state.add_to_claim) moves the totals by exactly the change of the caller's contribution
contrib(c) = (c.raw, c.qa) if c.raw >= consensus minimum else (0, 0); create_miner initialises an empty claim.
The miner-side half (which sectors count) lives in partition/deadline state and is outside reach (C04)."""
from .common import *
from .models_imports import mk_enum

PROPERTY = 'C02'
CRATES = ['fil_actors_runtime', 'fil_actor_power', 'fil_actor_miner']
PW = 'fil_actor_power'
MINP = 10 << 40      # policy.minimum_consensus_power = 10 TiB


def setup_power(E, rt):
    PS = Fields('actors/power/src/state.rs', 'State')
    st = StructV('State', {}, lazy='st')
    g = lambda n, t='BigInt': fget(E, st, PS[n], t).v
    pre = dict(st=st, tot_raw=g('total_raw_byte_power'), tot_qa=g('total_quality_adj_power'),
               bytes=g('total_bytes_committed'), qabytes=g('total_qa_bytes_committed'),
               above=g('miner_above_min_power_count', 'i64'), mc=g('miner_count', 'i64'))
    E.ctx.assume(z3.And(pre['tot_raw'] >= 0, pre['tot_qa'] >= 0, pre['above'] >= 0, pre['above'] <= pre['mc'], pre['mc'] < 2**40))
    claims_base = 'map(st.%d)' % PS['claims']
    pre['claims_base'] = claims_base
    seen = []

    def hook(E2, m, kt, val):
        if m.base != claims_base:
            return None
        CL = Fields('actors/power/src/state.rs', 'Claim')
        raw = z3.Int('%s.raw' % val.name)
        qa = z3.Int('%s.qa' % val.name)
        E2.ctx.assume(z3.And(raw >= 0, qa >= 0))
        seen.append((raw, qa))
        E2.ctx.assume(z3.And(pre['tot_raw'] >= sum(z3.If(r >= MINP, r, 0) for r, q in seen),
                             pre['tot_qa'] >= sum(z3.If(r >= MINP, q, 0) for r, q in seen),
                             pre['above'] >= sum(z3.If(r >= MINP, 1, 0) for r, q in seen), pre['mc'] >= len(seen)))
        pre['claim0'] = (raw, qa)
        return StructV('state::Claim', {CL['window_post_proof_type']: mk_enum('RegisteredPoStProof', 'RegisteredPoStProof', 'StackedDRGWindow32GiBV1P1'),
                                        CL['raw_byte_power']: BigV(raw), CL['quality_adj_power']: BigV(qa)})
    E.ctx.env['map_value_hook'] = hook
    E.ctx.env['pre'] = pre
    rt.state = st
    return pre


def run_update(E):
    rt, rtref = new_rt(E)
    setup_power(E, rt)
    params = LazyV('params', 'types::UpdateClaimedPowerParams')
    E.ctx.env['params'] = params
    fn = find_fn(E, PW, 'update_claimed_power')
    return E.run_function(fn, [rtref, params]), rt


def props_update(E, res):
    env = res.ctx.env
    rt, pre = env['rt'], env['pre']
    ctx = res.ctx
    if res.kind != 'return':
        return [('no panic (%s)' % str(res.info)[:60], False)]
    if is_err(res.value):
        return [('rejected power update commits nothing', rt.commits == 0)]
    PS = Fields('actors/power/src/state.rs', 'State')
    CL = Fields('actors/power/src/state.rs', 'Claim')
    st1 = rt.state
    g = lambda n, t='BigInt': fget(E, st1, PS[n], t).v
    draw = fget(E, env['params'], 0, 'BigInt').v
    dqa = fget(E, env['params'], 1, 'BigInt').v
    P = [('only miner actors report power', rt.caller_type == ACTOR_TYPES['Miner']),
         ('the caller had a claim', 'claim0' in pre)]
    if 'claim0' not in pre:
        return P
    raw0, qa0 = pre['claim0']
    raw1, qa1 = raw0 + draw, qa0 + dqa
    c = lambda r, v: z3.If(r >= MINP, v, 0)
    P += [('claims never go negative', z3.And(raw1 >= 0, qa1 >= 0)),
          ('network raw power moves by the change of the contribution under the consensus-minimum rule', g('total_raw_byte_power') - pre['tot_raw'] == c(raw1, raw1) - c(raw0, raw0)),
          ('network QA power moves by the change of the contribution under the consensus-minimum rule', g('total_quality_adj_power') - pre['tot_qa'] == c(raw1, qa1) - c(raw0, qa0)),
          ('above-minimum miner count follows the threshold crossing', g('miner_above_min_power_count', 'i64') - pre['above'] == c(raw1, 1) - c(raw0, 1)),
          ('committed bytes move by the raw delta', g('total_bytes_committed') == pre['bytes'] + draw),
          ('committed QA bytes move by the QA delta', g('total_qa_bytes_committed') == pre['qabytes'] + dqa),
          ('miner count untouched', g('miner_count', 'i64') == pre['mc'])]
    ccid = fget(E, st1, PS['claims'], CID)
    cm = heap_get(E, ccid) if isinstance(ccid, CidV) else None
    P.append(('claims table written', isinstance(cm, MapM)))
    if isinstance(cm, MapM):
        kt = ('addr', rt.caller.proto, rt.caller.key)
        p, v = final_lookup(E, cm, kt)
        P.append(("the caller's claim is kept", p is True))
        if p:
            P.append(("the caller's claim = old claim + delta", z3.And(big(E, fget(E, v, CL['raw_byte_power'], 'BigInt')) == raw1,
                                                                     big(E, fget(E, v, CL['quality_adj_power'], 'BigInt')) == qa1)))
        for (k, pres, val, _) in cm.over:
            P.append(("only the caller's claim is written", key_eq(k, kt)))
    return P


def run_current_total(E):
    rt, rtref = new_rt(E)
    pre = setup_power(E, rt)
    fn = find_fn(E, PW, 'current_total_power', 'state.rs')
    r = E.run_function(fn, [RefV(Cell(pre['st'], 'st'), ())])
    return r, rt


def props_current_total(E, res):
    env = res.ctx.env
    pre = env['pre']
    if res.kind != 'return':
        return [('no panic (%s)' % str(res.info)[:60], False)]
    PS = Fields('actors/power/src/state.rs', 'State')
    raw, qa = big(E, res.value.fields[0]), big(E, res.value.fields[1])
    small = pre['above'] < 4        # policy.consensus_miner_min_miners
    return [('below the minimum number of large miners every byte counts, otherwise only miners above the consensus minimum',
             z3.And(raw == z3.If(small, pre['bytes'], pre['tot_raw']), qa == z3.If(small, pre['qabytes'], pre['tot_qa'])))]


# ---- miner side: a deadline that closes without a proof removes the power of its un-posted partitions -----------------
# Deadline::process_deadline_end executed from MIR over a partitions AMT with n entries.  CUTS (declared): the
# per-partition Partition::record_missed_post (sector sets; C04 area) is replaced by its result contract - arbitrary
# (power_delta, penalized_power, new_faulty_power) - and recorded; Deadline::add_expiration_partitions -> Ok.

def run_deadline_end(n):
    def run(E):
        rt, rtref = new_rt(E)
        DF = Fields('actors/miner/src/deadline_state.rs', 'Deadline')
        PF = Fields('actors/miner/src/partition_state.rs', 'Partition')
        dl = StructV('deadline_state::Deadline', {}, lazy='dl')
        pcid = fget(E, dl, DF['partitions'], CID)
        qb = BaseInfo(closed=True)
        E.ctx.memo[('mapbase', 'map(%s)' % pcid.hkey[1])] = qb
        parts = []
        for i in range(n):
            p = LazyV('part%d' % i, 'partition_state::Partition')
            qb.entries.append([('int', i), True, p, IntV(i, 'u64')])
            parts.append(p)
        calls = []

        def pp(nm):
            raw, qa = z3.Int(nm + '.raw'), z3.Int(nm + '.qa')
            return StructV('partition_state::PowerPair', {0: BigV(raw), 1: BigV(qa)}), (raw, qa)

        def cut_missed(E2, c):
            part = E2.deref(c.args[0])
            who = part.name if isinstance(part, LazyV) else getattr(part, 'lazy', None)
            k = len(calls)
            d, dv = pp('missed%d.power_delta' % k)
            pen, penv = pp('missed%d.penalized' % k)
            nf, nfv = pp('missed%d.new_faulty' % k)
            E2.ctx.assume(z3.And(nfv[0] >= 0, nfv[1] >= 0, penv[0] >= 0, penv[1] >= 0))
            calls.append(dict(who=who, delta=dv, pen=penv, nf=nfv))
            E2.ctx.env['missed_calls'] = list(calls)
            return ok(StructV('tuple', {0: d, 1: pen, 2: nf}), c.dest_ty)
        E.cuts['Partition::record_missed_post'] = cut_missed
        E.cuts['Deadline::add_expiration_partitions'] = lambda E2, c: ok(UNIT, c.dest_ty)
        cell = Cell(dl, 'dl')
        fp0 = fget(E, dl, DF['faulty_power'], 'PowerPair')
        E.ctx.env.update(dict(parts=parts, cell=cell, dl0=dl, missed_calls=[], n=n,
                              fp0=(big(E, fget(E, fp0, 0, 'BigInt')), big(E, fget(E, fp0, 1, 'BigInt')))))
        quant = LazyV('quant', 'quantize::QuantSpec')
        fn = find_fn(E, 'fil_actor_miner', 'process_deadline_end', 'deadline_state')
        return E.run_function(fn, [RefV(cell, (), True), RefV(Cell(OpaqueV('store'), 'store'), ()), quant, E.materialize('i64', 'fault_expiration'), E.materialize(CID, 'sectors')]), rt
    return run


def props_deadline_end(E, res):
    env = res.ctx.env
    ctx = res.ctx
    if res.kind != 'return':
        return [('no panic (%s)' % str(res.info)[:60], False)]
    if is_err(res.value):
        return [('closing a well-formed deadline does not fail', False)]
    DF = Fields('actors/miner/src/deadline_state.rs', 'Deadline')
    PF = Fields('actors/miner/src/partition_state.rs', 'Partition')
    calls = env['missed_calls']
    called = [c['who'] for c in calls]
    P = []
    posted = ctx.memo.get(('bfbits', 'dl.%d' % DF['partitions_posted']), [])

    def is_posted(i):
        for (kt, b) in posted:
            if implied(ctx, kt == i):
                return b
        return None
    for i, p in enumerate(env['parts']):
        b = is_posted(i)
        if b is None:
            P.append(('every partition of the deadline is examined', False))
            continue
        rec = fget(E, p, PF['recovering_power'], 'PowerPair')
        fp = fget(E, p, PF['faulty_power'], 'PowerPair')
        lp = fget(E, p, PF['live_power'], 'PowerPair')
        g = lambda x, j: big(E, fget(E, x, j, 'BigInt'))
        all_faulty = z3.And(g(rec, 0) == 0, g(rec, 1) == 0, g(fp, 0) == g(lp, 0), g(fp, 1) == g(lp, 1))
        must = z3.And(z3.Not(b), z3.Not(all_faulty))
        was = z3.BoolVal(p.name in called)
        P.append(('partition %d: a missed proof is recorded exactly when the partition was not proven and is not already entirely faulty' % i, was == must))
        P.append(('partition %d: recorded at most once' % i, called.count(p.name) <= 1))
    r = E.deref(res.value.fields[('Ok', 0)])
    pd, pen = E.deref(r.fields[0]), E.deref(r.fields[1])
    g = lambda x, j: big(E, fget(E, x, j, 'BigInt'))
    P.append(('the power removed by the deadline is the sum over its un-proven partitions', z3.And(g(pd, 0) == sum(c['delta'][0] for c in calls) if calls else g(pd, 0) == 0,
                                                                                                 g(pd, 1) == sum(c['delta'][1] for c in calls) if calls else g(pd, 1) == 0)))
    P.append(('penalised power is the sum over the un-proven partitions', z3.And(g(pen, 0) == (sum(c['pen'][0] for c in calls) if calls else 0),
                                                                                 g(pen, 1) == (sum(c['pen'][1] for c in calls) if calls else 0))))
    dl1 = env['cell'].value
    fp1 = fget(E, dl1, DF['faulty_power'], 'PowerPair')
    P.append(("the deadline's faulty power grows by exactly the newly faulty power", z3.And(g(fp1, 0) == env['fp0'][0] + (sum(c['nf'][0] for c in calls) if calls else 0),
                                                                                            g(fp1, 1) == env['fp0'][1] + (sum(c['nf'][1] for c in calls) if calls else 0))))
    return P


# ---- Partition::record_missed_post: a missed proof removes exactly the partition's active power ----------------------
# CUTS (declared): the expiration-queue rescheduling (ExpirationQueue::new / reschedule_all_as_faults / flush) and
# Partition::validate_state; the power memos and the fault / recovery / unproven sets are the real code.

def _pp_of(E, v):
    v = E.deref(v)
    return big(E, fget(E, v, 0, 'BigInt')), big(E, fget(E, v, 1, 'BigInt'))


def run_missed_post(E):
    rt, rtref = new_rt(E)
    PF = Fields('actors/miner/src/partition_state.rs', 'Partition')
    part = StructV('partition_state::Partition', {}, lazy='part')
    env = E.ctx.env
    pre = {k: _pp_of(E, fget(E, part, PF[k], 'PowerPair')) for k in ('live_power', 'faulty_power', 'unproven_power', 'recovering_power')}
    # partition invariants (validate_state): power memos are non-negative and nest: faulty + unproven <= live, recovering <= faulty
    for j in (0, 1):
        E.ctx.assume(z3.And(*[pre[k][j] >= 0 for k in pre], pre['faulty_power'][j] + pre['unproven_power'][j] <= pre['live_power'][j],
                            pre['recovering_power'][j] <= pre['faulty_power'][j]))
    E.cuts['ExpirationQueue::new'] = lambda E2, c: ok(StructV('expiration_queue::ExpirationQueue', {0: MapM('map(expiration_queue)', (), 'expiration_queue::ExpirationSet', 'amt'), 1: E2.deref(c.args[2])}), c.dest_ty)
    E.cuts['ExpirationQueue::reschedule_all_as_faults'] = lambda E2, c: ok(UNIT, c.dest_ty)
    E.cuts['Partition::validate_state'] = lambda E2, c: ok(UNIT, c.dest_ty)
    cell = Cell(part, 'part')
    env.update(dict(pre=pre, cell=cell))
    fn = find_fn(E, 'fil_actor_miner', 'record_missed_post', 'partition_state')
    return E.run_function(fn, [RefV(cell, (), True), RefV(Cell(OpaqueV('store'), 'store'), ()), E.materialize('i64', 'fault_expiration'), LazyV('quant', 'quantize::QuantSpec')]), rt


def props_missed_post(E, res):
    env = res.ctx.env
    if res.kind != 'return':
        return [('no panic (%s)' % str(res.info)[:60], False)]
    if is_err(res.value):
        return [('recording a missed proof on a well-formed partition does not fail', False)]
    PF = Fields('actors/miner/src/partition_state.rs', 'Partition')
    pre = env['pre']
    part1 = env['cell'].value
    post = {k: _pp_of(E, fget(E, part1, PF[k], 'PowerPair')) for k in pre}
    tup = E.deref(res.value.fields[('Ok', 0)])
    delta, pen, newf = (_pp_of(E, tup.fields[i]) for i in range(3))
    P = []
    for j, nm in ((0, 'raw'), (1, 'quality-adjusted')):
        active0 = pre['live_power'][j] - pre['faulty_power'][j] - pre['unproven_power'][j]
        active1 = post['live_power'][j] - post['faulty_power'][j] - post['unproven_power'][j]
        P.append(('a missed proof removes exactly the power the partition was contributing (%s)' % nm, delta[j] == -active0))
        P.append(('afterwards the partition contributes no power (%s)' % nm, active1 == 0))
        P.append(('all live power is faulty, nothing is recovering or unproven (%s)' % nm,
                  z3.And(post['faulty_power'][j] == pre['live_power'][j], post['live_power'][j] == pre['live_power'][j], post['recovering_power'][j] == 0, post['unproven_power'][j] == 0)))
        P.append(('penalised power = newly faulty power + failed recoveries (%s)' % nm,
                  z3.And(newf[j] == pre['live_power'][j] - pre['faulty_power'][j], pen[j] == pre['recovering_power'][j] + newf[j])))
    rec = E.deref(fget(E, part1, PF['recoveries'], 'BitField'))
    unp = E.deref(fget(E, part1, PF['unproven'], 'BitField'))
    P.append(('recovery declarations and unproven marks are cleared', b_and(models_fvm.bitfield_empty(E, rec), models_fvm.bitfield_empty(E, unp))))
    return P


# ---- Deadline::record_proven_sectors: what a Window PoSt credits ---------------------------------------------------------
# CUTS (declared): Partition::record_skipped_faults and Partition::recover_faults (sector sets / per-sector power: C04 area)
# -> arbitrary results, recorded; Deadline::add_expiration_partitions -> Ok.  Real: duplicate / already-proven checks,
# activate_unproven, the accumulation of power deltas, the posted-partitions set, the deadline's faulty-power memo.

def run_proven(nposts, nposted):
    def run(E):
        rt, rtref = new_rt(E)
        DF = Fields('actors/miner/src/deadline_state.rs', 'Deadline')
        PF = Fields('actors/miner/src/partition_state.rs', 'Partition')
        idx = [E.materialize('u64', 'post%d.index' % i) for i in range(nposts)]
        for x in idx:
            E.ctx.assume(x.v < 3000)
        posted = [E.materialize('u64', 'posted%d' % i).v for i in range(nposted)]
        dl = StructV('deadline_state::Deadline', {DF['partitions_posted']: models_fvm.BitSetV(posted)}, lazy='dl')
        fp0 = _pp_of(E, fget(E, dl, DF['faulty_power'], 'PowerPair'))
        env = E.ctx.env
        calls = {'skipped': [], 'recovered': []}

        def pp(nm, nonneg=True):
            raw, qa = z3.Int(nm + '.raw'), z3.Int(nm + '.qa')
            if nonneg:
                E.ctx.assume(z3.And(raw >= 0, qa >= 0))
            return StructV('partition_state::PowerPair', {0: BigV(raw), 1: BigV(qa)}), (raw, qa)

        def cut_skipped(E2, c):
            k = len(calls['skipped'])
            d, dv = pp('skipped%d.power_delta' % k, False)
            nf, nfv = pp('skipped%d.new_fault' % k)
            rr, rrv = pp('skipped%d.retracted' % k)
            calls['skipped'].append(dict(delta=dv, nf=nfv, rr=rrv))
            env['calls'] = calls
            return ok(StructV('tuple', {0: d, 1: nf, 2: rr, 3: E2.ctx.fresh_bool('skipped%d.has_new_faults' % k)}), c.dest_ty)

        def cut_recover(E2, c):
            k = len(calls['recovered'])
            r, rv = pp('recovered%d' % k)
            # the partition whose unproven power is about to be activated
            part = E2.deref(c.args[0])
            calls['recovered'].append(dict(power=rv, unproven=_pp_of(E2, fget(E2, part, PF['unproven_power'], 'PowerPair'))))
            env['calls'] = calls
            return ok(r, c.dest_ty)
        E.cuts['Partition::record_skipped_faults'] = cut_skipped
        E.cuts['Partition::recover_faults'] = cut_recover
        E.cuts['Deadline::add_expiration_partitions'] = lambda E2, c: ok(UNIT, c.dest_ty)
        posts = VecV([StructV('types::PoStPartition', {0: x, 1: models_fvm.BitFieldV('post%d.skipped' % i)}) for i, x in enumerate(idx)], 'Vec<PoStPartition>')
        cell = Cell(dl, 'dl')
        env.update(dict(idx=[x.v for x in idx], posted=posted, cell=cell, fp0=fp0, calls=calls))
        fn = find_fn(E, 'fil_actor_miner', 'record_proven_sectors', 'deadline_state')
        return E.run_function(fn, [RefV(cell, (), True), RefV(Cell(OpaqueV('store'), 'store'), ()), RefV(Cell(LazyV('sectors', 'sectors::Sectors'), 'sectors'), ()),
                                   LazyV('sector_size', 'fvm_shared::sector::SectorSize'), LazyV('quant', 'quantize::QuantSpec'), E.materialize('i64', 'fault_expiration'),
                                   RefV(Cell(posts, 'posts'), (), True)]), rt
    return run


def props_proven(E, res):
    env = res.ctx.env
    ctx = res.ctx
    if res.kind != 'return':
        return [('no panic (%s)' % str(res.info)[:60], False)]
    idx, posted = env['idx'], env['posted']
    if is_err(res.value):
        return []
    DF = Fields('actors/miner/src/deadline_state.rs', 'Deadline')
    P = []
    for i in range(len(idx)):
        for j in range(i + 1, len(idx)):
            P.append(('one proof message never proves the same partition twice', idx[i] != idx[j]))
        for q in posted:
            P.append(('a partition already proven in this deadline is not proven (credited) again', idx[i] != q))
    calls = env['calls']
    P.append(('every proven partition is processed exactly once', len(calls['skipped']) == len(idx) and len(calls['recovered']) == len(idx)))
    r = E.deref(res.value.fields[('Ok', 0)])
    RF = Fields('actors/miner/src/deadline_state.rs', 'PoStResult')
    pd = _pp_of(E, fget(E, r, RF['power_delta'], 'PowerPair'))
    for j, nm in ((0, 'raw'), (1, 'quality-adjusted')):
        exp = sum(c['delta'][j] for c in calls['skipped']) + sum(c['power'][j] + c['unproven'][j] for c in calls['recovered'])
        P.append(('power credited by the proof = skipped-fault delta + recovered power + power of sectors proven for the first time (%s)' % nm, pd[j] == exp))
    dl1 = env['cell'].value
    fp1 = _pp_of(E, fget(E, dl1, DF['faulty_power'], 'PowerPair'))
    for j in (0, 1):
        P.append(("the deadline's faulty power moves by new faults minus recoveries", fp1[j] == env['fp0'][j] + sum(c['nf'][j] for c in calls['skipped']) - sum(c['power'][j] for c in calls['recovered'])))
    pp1 = E.deref(fget(E, dl1, DF['partitions_posted'], 'BitField'))
    if isinstance(pp1, models_fvm.BitSetV):
        for x in idx:
            P.append(('every proven partition is marked as posted', any_of([b == x for b in pp1.bits])))
    else:
        P.append(('posted set stays explicit', False))
    return P


# ---- power.create_miner: a new miner starts with an empty claim -------------------------------------------------------

def run_create_miner(E):
    rt, rtref = new_rt(E)
    pre = setup_power(E, rt)
    rt.state = pre['st']
    E.ctx.env['prep'] = pre
    E.ctx.env['value0'] = rt.value_received

    def hook(E2, rt2, rec, nm):
        # init's Exec answers with the new actor's ID address and robust address
        if implied(E2.ctx, b_and(rec.to.proto == 0, rec.to.key == 1)):
            ch = E2.ctx.choose(3, nm + '.outcome')
            if ch:
                return ('fail', None) if ch == 1 else ('syserr', None)
            ida = E2.materialize(ADDR, 'new_miner')
            E2.ctx.assume(z3.And(ida.proto == 0, ida.key >= 100))
            E2.ctx.env['new_miner'] = ida
            return ('ok', some(BlockV(StructV('ext::init::ExecReturn', {0: ida, 1: E2.materialize(ADDR, 'new_miner_robust')}))))
        return None
    rt.send_hook = hook
    params = LazyV('params', 'fil_actors_runtime::runtime::... ') if False else LazyV('params', 'types::CreateMinerParams')
    fn = find_fn(E, PW, 'create_miner')
    return E.run_function(fn, [rtref, params]), rt


def props_create_miner(E, res):
    env = res.ctx.env
    ctx = res.ctx
    rt = env['rt']
    pre = env['prep']
    if res.kind != 'return':
        return [('no panic (%s)' % str(res.info)[:60], False)]
    if is_err(res.value):
        return [('a failed miner creation commits nothing', rt.commits == 0)]
    PS = Fields('actors/power/src/state.rs', 'State')
    CL = Fields('actors/power/src/state.rs', 'Claim')
    st1 = rt.state
    g = lambda n, t='BigInt': fget(E, st1, PS[n], t).v
    P = [('the miner actor is created through the init actor (Exec) and receives the whole value sent', len(rt.sends) == 1 and implied(ctx, b_and(rt.sends[0].to.key == 1, zv(rt.sends[0].method) == 2, rt.sends[0].value == env['value0']))),
         ('network power totals are unchanged by a new, empty miner', z3.And(g('total_raw_byte_power') == pre['tot_raw'], g('total_quality_adj_power') == pre['tot_qa'],
                                                                                g('total_bytes_committed') == pre['bytes'], g('total_qa_bytes_committed') == pre['qabytes'])),
         ('the miner count grows by one', g('miner_count', 'i64') == pre['mc'] + 1),
         ('nobody is above the consensus minimum because of a creation', g('miner_above_min_power_count', 'i64') == pre['above'])]
    nm = env.get('new_miner')
    cm = heap_get(E, fget(E, st1, PS['claims'], CID))
    if nm is None or not isinstance(cm, MapM):
        P.append(('claim recorded for the new miner', False))
        return P
    fp, fv = final_lookup(E, cm, ('addr', nm.proto, nm.key))
    P.append(('a claim is recorded for the new miner', fp is True))
    if fp is True:
        fv = E.deref(fv)
        P.append(('the new claim credits no power', z3.And(big(E, fget(E, fv, CL['raw_byte_power'], 'BigInt')) == 0, big(E, fget(E, fv, CL['quality_adj_power'], 'BigInt')) == 0)))
    return P


def build(tier):
    from . import miner_formulas
    proven = [Obligation('miner.Deadline::record_proven_sectors[posts=%d, already posted=%d]' % sh, run_proven(*sh), props_proven,
                         descr='a Window PoSt credits each partition at most once per deadline (no duplicates, not already proven); power credited = skipped delta + recovered + first-time proven (unproven) power; faulty-power memo exact; partitions marked posted',
                         bounds='%d partition(s) in the proof, %d already posted; CUTS: record_skipped_faults, recover_faults (arbitrary results), add_expiration_partitions' % sh, max_paths=100000)
              for sh in ([(1, 0), (1, 1), (2, 0)] if tier == 'quick' else [(1, 0), (1, 1), (2, 0), (2, 1), (3, 0)])]
    created = [Obligation('power.create_miner', run_create_miner, props_create_miner,
                          descr='a new miner is created through init.Exec with the value forwarded, gets a claim with zero power; network totals unchanged, miner count + 1',
                          bounds='one call; power state symbolic under its invariant; init answer typed, failing or a syscall error', max_paths=20000)]
    from . import miner_activate, miner_cron, miner_replica
    return miner_formulas.build_qa(tier) + proven + created + miner_activate.build_for('C02', tier) + miner_activate.build_prove_ni('C02', tier) + miner_cron.build_recover('C02', tier) + miner_cron.build_wpost('C02', tier) + miner_cron.build_clock('C02', tier) + miner_replica.build_for('C02', tier) + miner_replica.build_extend_inner('C02', tier) + miner_replica.build_validate_updates('C02', tier) + miner_cron.build_declare_faults('C02', tier) + miner_cron.build_terminate_sectors('C02', tier) + [Obligation('miner.Partition::record_missed_post', run_missed_post, props_missed_post,
                       descr="a missed proof removes exactly the partition's active power (live - faulty - unproven), leaves it contributing nothing, marks all live power faulty and clears recoveries / unproven",
                       bounds='one partition, power memos symbolic under the nesting invariant; CUTS: expiration-queue rescheduling, validate_state', max_paths=2000)] + [Obligation('miner.Deadline::process_deadline_end[partitions=%d]' % n, run_deadline_end(n), props_deadline_end,
                       descr='closing a deadline records a missed proof for exactly the partitions that were not proven (and are not already entirely faulty), once each; power removed / penalised / newly faulty are the sums over those partitions',
                       bounds='%d partitions; partition contents symbolic; CUTS: Partition::record_missed_post (result contract), add_expiration_partitions' % n, max_paths=100000)
            for n in ([1, 2] if tier == 'quick' else [1, 2, 3])] + [Obligation('power.update_claimed_power', run_update, props_update,
                       descr='totals move by exactly the change of the caller\'s contribution under the consensus-minimum rule; only miners; only the caller\'s claim written',
                       bounds='one call; claims map symbolic under the power-state invariant; deltas unbounded (either sign)', max_paths=20000),
            Obligation('power.State::current_total_power', run_current_total, props_current_total,
                       descr='reported network power: all committed bytes while fewer than 4 miners are above the minimum, else the above-minimum totals',
                       bounds='all state symbolic', max_paths=100, expect_ok=False)]
