"""Whole market methods that walk a batch of deals: cron_tick and on_miner_sectors_terminate, executed from MIR with the
per-deal accounting functions (decided on their own in C07 / C08) cut to result contracts.  Clauses are tagged:
C01 (every slashed amount is burnt, nothing else leaves), C05 (the cron callback fails only when the burn fails),
C07 (termination: only the provider's own, unexpired deals are slashed; their state is removed)."""
from .common import *
from .market_common import MARKET, F, CRATES, DP
from .miner_money import tagged, for_property

CUTS_TXT = ('CUTS: get_deals_for_epoch / pop_sector_deal_ids (arbitrary list of distinct deal ids), get_active_deal_or_process_timeout, '
            'process_deal_update, process_slashed_deal (result contracts; their accounting is C07/C08), remove_deals_by_epoch, put_batch_deals_by_epoch, remove_sector_deal_ids (index maintenance)')


def _ids(E, n, name='deal'):
    ids = [E.materialize('u64', '%s%d' % (name, i)) for i in range(n)]
    for i in range(n):
        for j in range(i + 1, n):
            E.ctx.assume(ids[i].v != ids[j].v)
    return ids


def _prop_hook(E):
    ST, DPF, DSF = F()

    def hook(E2, m, kt, val):
        if m.base == 'map(st.%d)' % ST['proposals']:
            E2.ctx.assume(z3.And(fget(E2, val, DPF['client'], ADDR).proto == 0, fget(E2, val, DPF['provider'], ADDR).proto == 0))
        return None
    E.ctx.env['map_value_hook'] = hook


def _amount_cut(E, env, key, nm_prefix):
    def cut(E2, c):
        k = len(env.setdefault(key, []))
        v = z3.Int('%s%d' % (nm_prefix, k))
        E2.ctx.assume(v >= 0)
        env[key].append(v)
        return v
    return cut


# ---- cron_tick ---------------------------------------------------------------------------------------------------

def run_cron_tick(n):
    def run(E):
        rt, rtref = new_rt(E)
        rt.state = LazyV('st', 'State')
        ST, DPF, DSF = F()
        E.ctx.env['lazy_vec_lens'] = [0, 1]
        _prop_hook(E)
        env = E.ctx.env
        # the tick runs at every epoch: exactly one epoch to process
        E.ctx.assume(z3.And(rt.epoch >= 1, rt.epoch < 2**40, fget(E, rt.state, ST['last_cron'], 'i64').v == rt.epoch - 1))
        ids = _ids(E, n)
        env['ids'] = [d.v for d in ids]
        E.cuts['State::get_deals_for_epoch'] = lambda E2, c: ok(VecV(list(ids), 'Vec<u64>'), c.dest_ty)
        E.cuts['State::remove_deals_by_epoch'] = lambda E2, c: ok(UNIT, c.dest_ty)
        E.cuts['State::remove_sector_deal_ids'] = lambda E2, c: ok(UNIT, c.dest_ty)
        def cut_put_batch(E2, c):
            from mirsym.models_std import DictM
            d = E2.deref(c.args[2])
            d = d.obj if isinstance(d, ObjV) else d
            if not isinstance(d, DictM):
                raise Inconclusive('put_batch_deals_by_epoch: expected a map epoch -> ids, got %r' % (d,))
            out = []
            for (kt, kv, cell) in d.items:
                for x in E2.deref(cell.value).items:
                    out.append((zv(E2.deref(kv)), zv(E2.deref(x))))
            env['rescheduled'] = out
            return ok(UNIT, c.dest_ty)
        E.cuts['State::put_batch_deals_by_epoch'] = cut_put_batch
        pens = env.setdefault('pens', [])
        slashes = env.setdefault('slashes', [])

        def cut_load(E2, c):
            nm = 'load%d' % len(env.setdefault('loads', []))
            env['loads'].append(nm)
            ty = type_args(c.dest_ty)[0] if c.dest_ty else 'state::LoadDealState'
            # contract of get_active_deal_or_process_timeout (C08): a deal with a state in the table is returned as Loaded;
            # one without is an unactivated proposal, which - by the scheduling invariant assumed in the bounds (a deal
            # reaches the tick at or after its start epoch) - has timed out: ProposalExpired(slashed amount)
            stv = E2.deref(c.args[0])
            did = E2.deref(c.args[3])
            m = models_fvm.load_map(E2, E2.deref(fget(E2, stv, ST['states'], CID)), 'deal::DealState', 'amt')
            pres, val = models_fvm.map_lookup(E2, m, ('int', did.v), did)
            env['last_loaded_id'] = did.v
            if not pres:
                pen = z3.Int(nm + '.slashed')
                E2.ctx.assume(pen >= 0)
                pens.append(pen)
                return ok(EnumV(ty, 1, 'ProposalExpired', {('ProposalExpired', 0): BigV(pen)}), c.dest_ty)
            return ok(EnumV(ty, 2, 'Loaded', {('Loaded', 0): val}), c.dest_ty)

        def cut_update(E2, c):
            nm = 'upd%d' % len(env.setdefault('upds', []))
            env['upds'].append(nm)
            sl = z3.Int(nm + '.slash')
            pay = z3.Int(nm + '.payment')
            rem = E2.ctx.fresh_bool(nm + '.remove')
            done = E2.ctx.fresh_bool(nm + '.completed')
            # contract of process_deal_update (decided in C07): slashed amount non-negative; a deal that continues is never slashed
            E2.ctx.assume(z3.And(sl >= 0, z3.Implies(z3.Not(rem), sl == 0)))
            slashes.append((sl, rem))
            env['updated'] = env.get('updated', []) + [dict(did=env.get('last_loaded_id'), remove=rem)]
            return ok(StructV('tuple', {0: BigV(sl), 1: BigV(pay), 2: done, 3: rem}), c.dest_ty)
        E.cuts['State::get_active_deal_or_process_timeout'] = cut_load
        E.cuts['State::process_deal_update'] = cut_update
        # market invariant: a deal that was activated but never settled still has its pending-proposal entry
        E.cuts['State::remove_pending_deal'] = lambda E2, c: ok(some(UNIT), c.dest_ty)
        env['balance0'] = rt.balance
        fn = find_fn(E, MARKET, 'cron_tick')
        return E.run_function(fn, [rtref]), rt
    return run


def props_cron_tick(E, res):
    env = res.ctx.env
    rt = env['rt']
    ctx = res.ctx
    if res.kind != 'return':
        return [tagged('C05', 'the market tick never panics (%s)' % str(res.info)[:60], False)]
    pens = env.get('pens', [])
    slashes = env.get('slashes', [])
    if is_err(res.value):
        return [tagged('C05', 'the market cron callback fails only for a caller other than cron or when the burn of slashed funds failed',
                       z3.Or(z3.Not(z3.And(rt.caller.proto == 0, rt.caller.key == 3)), z3.BoolVal(any(not s.ok for s in rt.sends)))),
                tagged('C01', 'a failed tick commits nothing unless the burn failed', b_or(rt.commits == 0, any(not s.ok for s in rt.sends)))]
    total = (sum(pens) if pens else 0) + (sum(z3.If(rem, sl, 0) for (sl, rem) in slashes) if slashes else 0)
    sent = sum(s.value for s in rt.sends) if rt.sends else 0
    P = [tagged('C05', 'only the cron actor ticks', z3.And(rt.caller.proto == 0, rt.caller.key == 3))]
    for s in rt.sends:
        P.append(tagged('C01', 'the only value leaving the market in the tick goes to the burnt-funds actor', b_and(s.to.proto == 0, s.to.key == 99, zv(s.method) == 0)))
    P.append(tagged('C01,C07', 'every amount slashed in the tick (timed-out proposals, terminated deals) is burnt: nothing is stranded', sent == total))
    ST, DPF, DSF = F()
    P.append(tagged('C05', 'the tick records the epoch it processed', fget(E, rt.state, ST['last_cron'], 'i64').v == rt.epoch))
    # the invariant the tick itself assumes (an unstamped deal still has its pending entry) is kept: a deal that continues is
    # written back stamped with the epoch of this update
    # a deal that continues stays on the schedule: exactly one new entry, strictly in the future, within one update interval;
    # a deal that ends is not rescheduled
    resched = env.get('rescheduled')
    if resched is None:
        P.append(tagged('C05,C07', 'the tick writes the new schedule', False))
    else:
        for u in env.get('updated', []):
            if u['did'] is None:
                P.append(tagged('C05,C07', 'updated deals are identified', False))
                continue
            mine = [ep for (ep, did) in resched if implied(ctx, did == u['did'])]
            rem = u['remove'] if is_sym(u['remove']) else z3.BoolVal(bool(u['remove']))
            if implied(ctx, rem):
                P.append(tagged('C05,C07', 'a deal that ends in the tick is not rescheduled', len(mine) == 0))
            elif implied(ctx, z3.Not(rem)):
                P.append(tagged('C05,C07', 'a deal that continues is rescheduled exactly once', len(mine) == 1))
                for ep in mine:
                    P.append(tagged('C05,C07', 'the next update of a continuing deal is strictly in the future and at most one update interval away',
                                    z3.And(ep > rt.epoch, ep <= rt.epoch + 86400)))
            else:
                P.append(tagged('C05,C07', 'whether an updated deal continues is decided on the path', False))
        P.append(tagged('C05,C07', 'only deals updated in the tick are rescheduled', len(resched) <= len(env.get('updated', []))))
    sm = heap_get(E, fget(E, rt.state, ST['states'], CID))
    for u in env.get('updated', []):
        if implied(ctx, u['remove']):
            continue
        lbl = 'a deal that continues after its cron update is written back stamped with the epoch of the update'
        if not isinstance(sm, MapM) or u['did'] is None:
            P.append(tagged('C05,C07', lbl, False))
            continue
        pres, val = final_lookup(E, sm, ('int', u['did']))
        if pres is not True or val is None:
            P.append(tagged('C05,C07', lbl, z3.BoolVal(False) if not is_sym(u['remove']) else u['remove']))
        else:
            stamp = fget(E, E.deref(val), DSF['last_updated_epoch'], 'i64').v
            P.append(tagged('C05,C07', lbl, z3.Implies(z3.Not(u['remove']) if is_sym(u['remove']) else z3.BoolVal(not u['remove']), stamp == rt.epoch)))
    return P


# ---- on_miner_sectors_terminate ------------------------------------------------------------------------------------

def run_terminate(n):
    def run(E):
        rt, rtref = new_rt(E)
        rt.state = LazyV('st', 'State')
        ST, DPF, DSF = F()
        E.ctx.env['lazy_vec_lens'] = [0, 1]
        _prop_hook(E)
        env = E.ctx.env
        ids = _ids(E, n)
        env['ids'] = [d.v for d in ids]
        E.cuts['State::pop_sector_deal_ids'] = lambda E2, c: ok(VecV(list(ids), 'Vec<u64>'), c.dest_ty)
        slashed = env.setdefault('slashed', [])

        def cut_slash(E2, c):
            deal = E2.deref(c.args[2])
            state = E2.deref(c.args[3])
            v = z3.Int('slash%d' % len(slashed))
            E2.ctx.assume(v >= 0)
            slashed.append(dict(amount=v, deal=deal, state=state, pending_retired=env.pop('pending_retired', False)))
            return ok(BigV(v), c.dest_ty)
        E.cuts['State::process_slashed_deal'] = cut_slash

        def cut_pending(E2, c):
            env['pending_retired'] = True          # attributed to the deal slashed next
            return ok(some(UNIT), c.dest_ty)
        E.cuts['State::remove_pending_deal'] = cut_pending
        params = StructV('ext::miner::OnMinerSectorsTerminateParams', {0: E.materialize('i64', 'term_epoch'), 1: models_fvm.BitSetV([E.materialize('u64', 'sector').v])})
        env['term_epoch'] = params.fields[0].v
        fn = find_fn(E, MARKET, 'on_miner_sectors_terminate')
        return E.run_function(fn, [rtref, params]), rt
    return run


def props_terminate(E, res):
    env = res.ctx.env
    rt = env['rt']
    ctx = res.ctx
    if res.kind != 'return':
        return [tagged('C07', 'no panic (%s)' % str(res.info)[:60], False)]
    if is_err(res.value):
        return [tagged('C01', 'a failed termination notice commits nothing unless the burn failed', b_or(rt.commits == 0, any(not s.ok for s in rt.sends)))]
    ST, DPF, DSF = F()
    slashed = env.get('slashed', [])
    P = [tagged('C07', 'only a miner actor reports terminated sectors', rt.caller_type == models_fvm.ACTOR_TYPES['Miner'])]
    total = sum(x['amount'] for x in slashed) if slashed else 0
    sent = sum(s.value for s in rt.sends) if rt.sends else 0
    for s in rt.sends:
        P.append(tagged('C01', 'the only value leaving the market goes to the burnt-funds actor', b_and(s.to.proto == 0, s.to.key == 99, zv(s.method) == 0)))
    P.append(tagged('C01,C07', 'every amount slashed from terminated deals is burnt: nothing is stranded', sent == total))
    sm = heap_get(E, fget(E, rt.state, ST['states'], CID))
    pm = heap_get(E, fget(E, rt.state, ST['proposals'], CID))
    for x in slashed:
        d, stt = x['deal'], x['state']
        P.append(tagged('C07', "only the calling provider's own deals are terminated", addr_eq(fget(E, d, DPF['provider'], ADDR), rt.caller)))
        P.append(tagged('C07', 'a deal that already reached its end epoch is not slashed', fget(E, d, DPF['end_epoch'], 'i64').v > env['term_epoch']))
        P.append(tagged('C07', 'the deal is slashed as of the termination epoch given by the miner', fget(E, stt, DSF['slash_epoch'], 'i64').v == env['term_epoch']))
        P.append(tagged('C07,C08', "a terminated deal's pending-proposal entry is retired only if the deal was never settled (a settled deal's entry is already gone and the cid may belong to a newer deal)",
                        z3.BoolVal(bool(x['pending_retired'])) == (fget(E, stt, DSF['last_updated_epoch'], 'i64').v == -1)))
    # every live (unexpired) deal of the terminated sectors is slashed: none is skipped
    slashed_names = [getattr(E.deref(x['deal']), 'name', None) or getattr(E.deref(x['deal']), 'lazy', None) for x in slashed]
    for did in env['ids']:
        bp, bv = base_lookup(E, 'map(st.%d)' % ST['proposals'], ('int', did))
        if bp is None:
            P.append(tagged('C07', 'every deal of the terminated sectors is examined (none is skipped)', False))
            continue
        if bp is not True:
            continue            # no proposal on record (already cleaned up): nothing to do for this id
        bv = E.deref(bv)
        nm = getattr(bv, 'name', None) or getattr(bv, 'lazy', None)
        live = fget(E, bv, DPF['end_epoch'], 'i64').v > env['term_epoch']
        P.append(tagged('C07', 'every deal of the terminated sectors that has not reached its end epoch is slashed (none is skipped)',
                        z3.Implies(live, z3.BoolVal(nm in slashed_names))))
    # every slashed deal is removed: no overlay write leaves a state/proposal behind
    for m_, what in ((sm, 'deal state'), (pm, 'proposal')):
        if slashed:
            if not isinstance(m_, MapM):
                P.append(tagged('C07', 'terminated deals lose their %s' % what, False))
            else:
                P.append(tagged('C07', 'terminated deals lose their %s (one deletion per slashed deal, no other write)' % what,
                                len([1 for (k, pres, v, _) in m_.over if pres is False]) >= len(slashed) and all(pres is False for (k, pres, v, _) in m_.over)))
    return P


# ---- next_update_epoch: the per-deal slot of the cron schedule ---------------------------------------------------------------

def run_next_update(E):
    rt, rtref = new_rt(E)
    did, k, r = z3.Int('deal_id'), z3.Int('slot.period'), z3.Int('slot.into')
    # earliest in coordinates relative to the deal's offset (id mod interval): earliest = offset + 86400 * k + r. Every epoch has
    # exactly one such decomposition, so this is a change of variables (see run_clock in miner_cron.py)
    a, b = z3.Int('id.high'), z3.Int('id.offset')
    E.ctx.assume(z3.And(did == 86400 * a + b, b >= 0, b < 86400, did >= 0, did < 2**62, r >= 0, r < 86400))
    earliest = b + 86400 * k + r
    E.ctx.assume(z3.And(earliest >= 0, earliest < 2**40))
    E.ctx.env.update(dict(did=did, off=b, k=k, r=r, earliest=earliest))
    fn = find_fn(E, MARKET, 'next_update_epoch')
    return E.run_function(fn, [IntV(did, 'u64'), IntV(86400, 'i64'), IntV(earliest, 'i64')]), rt


def props_next_update(E, res):
    env = res.ctx.env
    if res.kind != 'return':
        return [tagged('C05,C07,C08', 'no panic (%s)' % str(res.info)[:60], False)]
    v = zv(res.value)
    want = z3.If(env['r'] == 0, env['earliest'], env['earliest'] - env['r'] + 86400)
    return [tagged('C05,C07,C08', 'the first update slot of a deal is never before the given epoch (a deal is never due before its start epoch) and within one interval of it',
                   z3.And(v >= env['earliest'], v < env['earliest'] + 86400)),
            tagged('C05,C07,C08', "the slot is the deal's fixed offset (id mod interval) within the interval: exactly the first such epoch", v == want)]


def build_next_update(pid, tier):
    wrap = lambda f: (lambda E, res: for_property(pid, f(E, res)))
    return [Obligation('market.next_update_epoch', run_next_update, wrap(props_next_update),
                       descr="the cron slot of a deal: the first epoch >= earliest that is congruent to the deal id modulo the update interval",
                       bounds='policy interval 86400 (30 days); ids < 2^62; epochs in [0, 2^40)', max_paths=200, fresh_solver=True)]


def build_for(pid, tier):
    wrap = lambda f: (lambda E, res: for_property(pid, f(E, res)))
    O = []
    ns = [1, 2] if tier == 'quick' else [1, 2, 3]
    if pid in ('C01', 'C05', 'C07'):
        for n in [1, 2]:      # three due deals multiply the path count by ~25 (about 15 min): outside the bound
            O.append(Obligation('market.cron_tick[%d deals due]' % n, run_cron_tick(n), wrap(props_cron_tick),
                                descr='market cron callback: everything slashed in the tick is burnt in one send; fails only for a wrong caller or a failed burn; last_cron advances',
                                bounds='one epoch to process (tick run at every epoch), %d due deal(s); %s; assumed invariants: a due deal is never before its start epoch, an activated never-settled deal still has its pending entry' % (n, CUTS_TXT),
                                max_paths=200000))
    if pid in ('C05', 'C07'):
        O += build_next_update(pid, tier)
    if pid in ('C01', 'C07'):
        for n in ns:
            O.append(Obligation('market.on_miner_sectors_terminate[%d deals]' % n, run_terminate(n), wrap(props_terminate),
                                descr="sector termination: only the provider's own unexpired deals are slashed as of the given epoch and removed; everything slashed is burnt",
                                bounds='%d deal(s) in the terminated sectors; %s' % (n, CUTS_TXT), max_paths=200000))
    return O
