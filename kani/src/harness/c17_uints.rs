//! C17 – helpers of shared/src/uints.rs the instructions are built on: i256_neg, i256_cmp,
//! i256_is_negative, to_u64_saturating, big-endian byte conversion.
use super::c17_arith::{ref_add, ref_neg};
use super::util::*;
use core::cmp::Ordering;
use fil_actors_evm_shared::uints::U256;

/// Two's complement negation: x + neg(x) == 0 (mod 2^256) – the defining equation – and
/// equals the independent limb-wise 0 - x.
#[kani::proof]
#[kani::unwind(6)]
fn c17_i256_neg() {
    let x = any_u256();
    let n = x.i256_neg();
    assert!(same(&U256(ref_add(&x.0, &n.0)), [0, 0, 0, 0]));
    assert!(same(&n, ref_neg(&x.0)));
    kani::cover!(x.0[0] == 0 && x.0[1] != 0 && n.0[3] != 0);
    kani::cover!(same(&x, [0, 0, 0, 1 << 63]) && same(&n, [0, 0, 0, 1 << 63]));
}

/// Sign = bit 255.
#[kani::proof]
#[kani::unwind(6)]
fn c17_i256_sign() {
    let x = any_u256();
    let r = x.i256_is_negative();
    assert!(r == bit(&x.0, 255));
    kani::cover!(r);
    kani::cover!(!r);
}

/// Signed comparison against the two's complement definition: value(x) = unsigned(x) -
/// 2^256*[bit255]; decided on (sign, then most significant differing limb).
#[kani::proof]
#[kani::unwind(6)]
fn c17_i256_cmp() {
    let (a, b) = (any_u256(), any_u256());
    let r = a.i256_cmp(&b);
    let sa = a.0[3] >> 63 == 1;
    let sb = b.0[3] >> 63 == 1;
    // unsigned order by scanning limbs from the most significant one
    let mut ord = Ordering::Equal;
    let mut k = 4;
    while k > 0 {
        k -= 1;
        if ord == Ordering::Equal {
            if a.0[k] < b.0[k] {
                ord = Ordering::Less;
            } else if a.0[k] > b.0[k] {
                ord = Ordering::Greater;
            }
        }
    }
    let expect = if sa && !sb {
        Ordering::Less
    } else if !sa && sb {
        Ordering::Greater
    } else {
        ord
    };
    assert!(r == expect);
    kani::cover!(r == Ordering::Less && sa && sb);
    kani::cover!(r == Ordering::Greater && !sa && sb);
    kani::cover!(r == Ordering::Equal && sa);
}

/// to_u64_saturating: min(x, 2^64 - 1).
#[kani::proof]
#[kani::unwind(6)]
fn c17_to_u64_saturating() {
    let x = any_u256();
    let r = x.to_u64_saturating();
    let big = x.0[1] != 0 || x.0[2] != 0 || x.0[3] != 0;
    assert!(r == if big { u64::MAX } else { x.0[0] });
    kani::cover!(big && x.0[0] == 5);
    kani::cover!(!big && x.0[0] == 5);
}

/// Big-endian serialisation: byte 31-k of `to_bytes()` is the k-th least significant byte
/// of the value (symbolic k), and `from_big_endian` of those 32 bytes gives the value back.
/// Also from_big_endian of 32 arbitrary bytes: limb j = bytes[24-8j .. 32-8j] big-endian.
#[kani::proof]
#[kani::unwind(34)]
fn c17_u256_bytes_roundtrip() {
    let x = any_u256();
    let bytes: [u8; 32] = x.to_bytes();
    let k: usize = kani::any();
    kani::assume(k < 32);
    let expect = (x.0[k / 8] >> (8 * (k % 8))) as u8;
    assert!(bytes[31 - k] == expect);
    let y = U256::from_big_endian(&bytes);
    assert!(same(&y, x.0));
    kani::cover!(k == 17 && bytes[31 - k] == 0xab);
}

#[kani::proof]
#[kani::unwind(34)]
fn c17_u256_from_big_endian() {
    let bytes: [u8; 32] = kani::any();
    let y = U256::from_big_endian(&bytes);
    let j: usize = kani::any();
    kani::assume(j < 4);
    let o = 24 - 8 * j;
    let limb = ((bytes[o] as u64) << 56)
        | ((bytes[o + 1] as u64) << 48)
        | ((bytes[o + 2] as u64) << 40)
        | ((bytes[o + 3] as u64) << 32)
        | ((bytes[o + 4] as u64) << 24)
        | ((bytes[o + 5] as u64) << 16)
        | ((bytes[o + 6] as u64) << 8)
        | (bytes[o + 7] as u64);
    assert!(y.0[j] == limb);
    kani::cover!(j == 2 && limb == 0x0102030405060708);
}
