"""Read-only (STATICCALL) guards of the EVM instructions that have side effects, executed from MIR against a System
loaded in a read-only runtime context.  Shared by C18 (read-only clause) and C19."""
from .common import *
from mirsym.models_evm import mk_word, word_limbs, WORD
from mirsym.models_core import mk_enum
from . import C19

EVM = 'fil_actor_evm'
XS = 'interpreter::execution::ExecutionState'


def ifn(E, name, mod):
    return find_fn(E, EVM, name, mod)


def _words(E, *names):
    return [mk_word(E, n) for n in names]


def _mk_calls():
    """name -> (module filter, builder(E, xs_ref, sys_ref) -> argument list after (state, system))"""
    def call_args(E):
        ws = _words(E, 'gas', 'dst', 'value', 'in_off', 'in_size', 'out_off', 'out_size')
        # a value-bearing call
        E.ctx.assume(z3.Or(*[x > 0 for x in word_limbs(E, ws[2])]))
        return [mk_enum('instructions::call::CallKind', 'CallKind', 'Call'), StructV('tuple', {i: w for i, w in enumerate(ws)})]
    return {
        'sstore': (None, lambda E: _words(E, 'key', 'value')),
        'tstore': (None, lambda E: _words(E, 'key', 'value')),
        'create': ('lifecycle::', lambda E: _words(E, 'endowment', 'offset', 'size')),
        'create2': (None, lambda E: _words(E, 'endowment', 'offset', 'size', 'salt')),
        'selfdestruct': (None, lambda E: [E.materialize('usize', 'pc')] + _words(E, 'beneficiary')),
        'log': ('log_event::', lambda E: [IntV(1, 'usize')] + _words(E, 'mem_index', 'size') + [RefV(Cell(VecV(_words(E, 'topic0'), '[U256]'), 'topics'), ())]),
        'call_generic': (None, call_args),
    }


CALLS = _mk_calls()


def run_guard(name, readonly):
    def run(E):
        rt, rtref = C19.setup(E, readonly=readonly)
        sysv = C19.okv(E, C19.call(E, 'load', [rtref]), 'load failed')
        SY = C19.SYSF()
        ro = fget(E, sysv, SY['readonly'], 'bool')
        E.ctx.env['sys_readonly'] = ro
        cell = Cell(sysv, 'system')
        xs = Cell(LazyV('xs', XS), 'xs')
        E.ctx.env.update(dict(sys0=sysv, cell=cell))
        mod, mk = CALLS[name]
        if name == 'call_generic':
            # a guard that moved would let execution continue into the call machinery: make that executable
            # (same declared cuts as the CALL obligations, precompile dispatch included with an arbitrary answer)
            from mirsym.models_evm import word_int
            E.cuts['get_memory_region'] = lambda E2, c: ok(none('Option<MemoryRegion>'), c.dest_ty)
            E.cuts['copy_to_memory'] = lambda E2, c: ok(UNIT, c.dest_ty)
            E.cuts['<EthAddress as From>::from'] = lambda E2, c: LazyV('dst_eth', 'fil_actors_evm_shared::address::EthAddress')
            E.cuts['<Address as From>::from'] = lambda E2, c: E2.materialize(ADDR, 'dst_addr')
            E.cuts['is_reserved_precompile_address'] = lambda E2, c: E2.ctx.fresh_bool('dst_is_precompile')
            E.cuts['System::call_gas_limit'] = lambda E2, c: E2.materialize('u64', 'gas_limit')
            E.cuts['<TokenAmount as From>::from'] = lambda E2, c: BigV(word_int(E2, c.args[0]))

            def precompile(E2, c):
                E2.ctx.env['precompile_called'] = True
                return ok(VecV([], 'Vec<u8>'), c.dest_ty)
            E.cuts['Precompiles::call_precompile'] = precompile
        fn = ifn(E, name, mod)
        args = [RefV(xs, (), True), RefV(cell, (), name != 'log')] + mk(E)
        return E.run_function(fn, args), rt
    return run


def props_guard(name):
    def props(E, res):
        env = res.ctx.env
        rt = env['rt']
        if res.kind == 'early':
            return []
        if res.kind != 'return':
            return [('no panic (%s)' % str(res.info)[:60], False)]
        P = [('a system loaded in a read-only context is read-only', env['sys_readonly'] if is_sym(env['sys_readonly']) else bool(env['sys_readonly']))]
        P.append(('%s is refused in a static (read-only) context' % name.upper(), is_err(res.value)))
        if is_err(res.value):
            e = E.deref(res.value.fields[('Err', 0)])
            code = fget(E, fget(E, e, 0, 'ExitCode'), 0, 'u32').v
            P.append(('refused with the read-only exit code', code == 25))
        P.append(('nothing takes effect: no send, no event, no state commit, no precompile run', len(rt.sends) == 0 and len(rt.events) == 0 and rt.commits == 0 and not env.get('precompile_called')))
        P.append(('pending contract state untouched', env['cell'].value is env['sys0'] or deep_same(E, env['cell'].value, env['sys0'])))
        return P
    return props


def same_value(E, a, b):
    """equality of two values one of which may be an unexamined (lazy) object: identical object or same symbolic name;
    two different unexamined objects are independent unknowns, hence not equal in general"""
    a, b = E.deref(a), E.deref(b)
    if a is b:
        return True
    if isinstance(a, LazyV) or isinstance(b, LazyV):
        return isinstance(a, LazyV) and isinstance(b, LazyV) and a.name == b.name
    return deep_eq(E, a, b)


def deep_same(E, a, b):
    try:
        r = deep_eq(E, a, b)
    except Exception:
        return False
    return r


def build_guards(tier):
    O = []
    for name in CALLS:
        O.append(Obligation('evm.%s[read-only context]' % name, run_guard(name, True), props_guard(name),
                            descr='in a static call context the instruction fails with USR_READ_ONLY before any effect (no send, event, commit or pending-state change)',
                            bounds='one instruction; arbitrary stored contract state and 256-bit operands%s' % ('; value > 0' if name == 'call_generic' else ''),
                            max_paths=5000, expect_ok=False))
    return O


# ---- CALL / STATICCALL / DELEGATECALL: what leaves the contract ----------------------------------------------------
# Cuts (declared): get_memory_region / copy_to_memory (memory kernels: Kani c18_memory_*), operand -> EthAddress -> Address
# conversions (Kani c20_ethaddress_*), is_reserved_precompile_address -> false (precompiles are a separate dispatch),
# get_contract_type -> arbitrary ContractType, TokenAmount::from(&U256) -> the word's integer value.

def run_call(kind):
    def run(E):
        from mirsym.models_evm import word_int
        rt, rtref = C19.setup(E)
        sysv = C19.okv(E, C19.call(E, 'load', [rtref]), 'load failed')
        SY = C19.SYSF()
        cell = Cell(sysv, 'system')
        XF = Fields('actors/evm/src/interpreter/execution.rs', 'ExecutionState')
        caller = LazyV('xs.caller', 'fil_actors_evm_shared::address::EthAddress')
        vr = z3.Int('xs.value_received')
        E.ctx.assume(vr >= 0)
        xsv = StructV('interpreter::execution::ExecutionState', {XF['caller']: caller, XF['value_received']: BigV(vr)}, lazy='xs')
        xs = Cell(xsv, 'xs')
        ws = _words(E, 'gas', 'dst', 'value', 'in_off', 'in_size', 'out_off', 'out_size')
        if kind != 'Call':
            for x in word_limbs(E, ws[2]):
                E.ctx.assume(x == 0)      # STATICCALL / DELEGATECALL pass a zero value operand (call_staticcall / call_delegatecall)
        dst_addr = E.materialize(ADDR, 'dst_addr')
        env = E.ctx.env
        env.update(dict(sys0=sysv, cell=cell, kind=kind, value=ws[2], dst_addr=dst_addr, caller=caller, vr=vr,
                        ro=fget(E, sysv, SY['readonly'], 'bool'), balance0=rt.balance))
        E.cuts['get_memory_region'] = lambda E2, c: ok(none('Option<MemoryRegion>'), c.dest_ty)
        E.cuts['copy_to_memory'] = lambda E2, c: ok(UNIT, c.dest_ty)
        E.cuts['<EthAddress as From>::from'] = lambda E2, c: LazyV('dst_eth', 'fil_actors_evm_shared::address::EthAddress')
        E.cuts['<Address as From>::from'] = lambda E2, c: dst_addr
        E.cuts['is_reserved_precompile_address'] = lambda E2, c: False
        E.cuts['System::call_gas_limit'] = lambda E2, c: E2.materialize('u64', 'gas_limit')      # gas is outside the property
        E.cuts['<TokenAmount as From>::from'] = lambda E2, c: BigV(word_int(E2, c.args[0]))

        def ctype(E2, c):
            ch = E2.ctx.choose(4, 'contract_type')
            ty = 'ContractType'
            if ch == 0:
                a = E2.materialize(ADDR, 'evm_target')
                E2.ctx.assume(a.proto == 0)
                env['evm_target'] = a
                return EnumV(ty, 1, 'EVM', {('EVM', 0): a})
            if ch == 1:
                return EnumV(ty, 2, 'Native', {('Native', 0): E2.materialize(CID, 'native_code')})
            return EnumV(ty, 3 if ch == 2 else 4, 'Account' if ch == 2 else 'NotFound', {})
        E.cuts['get_contract_type'] = ctype
        fn = ifn(E, 'call_generic', None)
        args = [RefV(xs, (), True), RefV(cell, (), True), mk_enum('instructions::call::CallKind', 'CallKind', kind),
                StructV('tuple', {i: w for i, w in enumerate(ws)})]
        return E.run_function(fn, args), rt
    return run


def props_call(E, res):
    from mirsym.models_evm import word_int
    env = res.ctx.env
    ctx = res.ctx
    rt = env['rt']
    kind = env['kind']
    if res.kind == 'early':
        return []
    if res.kind != 'return':
        return [('no panic (%s)' % str(res.info)[:60], False)]
    ro = env['ro']
    ro = ro if is_sym(ro) else z3.BoolVal(bool(ro))
    val = word_int(E, env['value'])
    P = []
    if is_err(res.value):
        e = E.deref(res.value.fields[('Err', 0)])
        code = fget(E, fget(E, e, 0, 'ExitCode'), 0, 'u32').v
        P.append(('the instruction aborts the activation only for a static-mode violation, a refused flush (read-only with pending writes) or a failed internal lookup',
                  z3.Or(z3.And(ro, val > 0, code == 25), ro, z3.BoolVal(any(not s.ok for s in rt.sends)), z3.BoolVal(len(rt.sends) > 0))))
        if implied(ctx, z3.And(ro, val > 0)):
            P.append(('a value transfer in a static context has no effect at all', len(rt.sends) == 0 and rt.commits == 0))
        return P
    calls = [s for s in rt.sends]
    if kind in ('Call', 'StaticCall'):
        P.append(('exactly one message leaves the contract', len(calls) == 1))
        if calls:
            s = calls[0]
            P.append(('it goes to the called address as InvokeContract (FRC-42 3844450837)', b_and(addr_eq(s.to, env['dst_addr']), zv(s.method) == 3844450837)))
            P.append(('it carries exactly the value operand', s.value == val))
            flags = E.deref(s.flags)
            fbits = fget(E, flags, 0, 'u64').v if isinstance(flags, StructV) else zv(flags)
            if kind == 'StaticCall':
                P.append(('STATICCALL marks the nested call read-only', fbits == 1))
            else:
                P.append(('CALL does not mark the nested call read-only', fbits == 0))
            P.append(('no value leaves a static context', z3.Implies(ro, s.value == 0)))
    else:
        tgt = env.get('evm_target')
        if tgt is None:
            P.append(('DELEGATECALL to an account, a missing or a native actor sends nothing', len(calls) == 0))
        else:
            P.append(('DELEGATECALL first fetches the target code (read-only GetBytecode)', len(calls) >= 1 and implied(ctx, b_and(addr_eq(calls[0].to, tgt), calls[0].value == 0))))
            if len(calls) >= 2:
                s = calls[1]
                P.append(('the code runs in this contract: the message goes to the contract itself as InvokeContractDelegate, moving no funds',
                          b_and(addr_eq(s.to, rt.receiver), s.value == 0)))
                obj = s.params.obj if isinstance(s.params, BlockV) else None
                if obj is None:
                    P.append(('delegate params are typed', False))
                else:
                    DF = Fields('actors/evm/src/types.rs', 'DelegateCallParams')
                    P.append(("the delegate runs with the original caller and the original call value (the caller's sender and value)",
                              b_and(same_value(E, fget(E, obj, DF['caller'], 'EthAddress'), env['caller']), big(E, fget(E, obj, DF['value'], TOKEN)) == env['vr'])))
            P.append(('at most two messages (code lookup + self call)', len(calls) <= 2))
    return P


def build_calls(tier):
    O = []
    for kind in ('Call', 'StaticCall', 'DelegateCall'):
        O.append(Obligation('evm.call_generic[%s]' % kind, run_call(kind), props_call,
                            descr='CALL/STATICCALL send one InvokeContract with exactly the value operand and the read-only flag iff STATICCALL, nothing in a static context with value; DELEGATECALL re-enters the contract itself with the original caller and value and moves no funds',
                            bounds='one instruction; empty input/output regions; CUTS: memory region kernels, operand->address conversions, precompile dispatch, get_contract_type (arbitrary result), call_gas_limit (arbitrary); nested sends free to fail',
                            max_paths=100000))
    return O


# ---- CREATE / CREATE2: the deployer nonce only grows; the request goes to the address manager ------------------------

def run_create(which):
    def run(E):
        from mirsym.models_evm import word_int
        rt, rtref = C19.setup(E, readonly=False)
        sysv = C19.okv(E, C19.call(E, 'load', [rtref]), 'load failed')
        SY = C19.SYSF()
        cell = Cell(sysv, 'system')
        xs = Cell(LazyV('xs', XS), 'xs')
        ws = _words(E, 'endowment', 'offset', 'size') + (_words(E, 'salt') if which == 'create2' else [])
        env = E.ctx.env
        nonce0 = fget(E, sysv, SY['nonce'], 'u64').v
        E.ctx.assume(nonce0 < 2**63)        # a nonce counts deployments; 2^63 of them are out of reach
        env.update(dict(sys0=sysv, cell=cell, which=which, endowment=ws[0], nonce0=nonce0, balance0=rt.balance,
                        ro=fget(E, sysv, SY['readonly'], 'bool')))
        E.cuts['get_memory_region'] = lambda E2, c: ok(none('Option<MemoryRegion>'), c.dest_ty)
        E.cuts['<TokenAmount as From>::from'] = lambda E2, c: BigV(word_int(E2, c.args[0]))
        E.cuts['EthAddress::as_evm_word'] = lambda E2, c: mk_word(E2, 'created_address_word')
        E.cuts['U256::to_big_endian'] = lambda E2, c: LazyV('salt_bytes', '[u8; 32]')

        def hook(E2, rt2, rec, nm):
            env['root_at_send'] = rt2.funcs['state_root']
            return None
        rt.send_hook = hook
        fn = ifn(E, which, 'lifecycle' if which == 'create' else None)
        return E.run_function(fn, [RefV(xs, (), True), RefV(cell, (), True)] + ws), rt
    return run


def props_create(E, res):
    from mirsym.models_evm import word_int, word_limbs as wl
    env = res.ctx.env
    ctx = res.ctx
    rt = env['rt']
    if res.kind == 'early':
        return []
    if res.kind != 'return':
        return [('no panic (%s)' % str(res.info)[:60], False)]
    SY, SF = C19.SYSF(), C19.SFe()
    ro = env['ro']
    ro = ro if is_sym(ro) else z3.BoolVal(bool(ro))
    endow = word_int(E, env['endowment'])
    sys1 = env['cell'].value
    nonce1 = fget(E, sys1, SY['nonce'], 'u64').v
    P = []
    if is_err(res.value):
        P.append(('CREATE aborts the activation only in a static context or when the reply of the address manager cannot be decoded', z3.Or(ro, z3.BoolVal(len(rt.sends) > 0))))
        P.append(('deployer nonce never decreases', nonce1 >= env['nonce0']))
        return P
    if not rt.sends:
        P.append(('no deployment is attempted only when the endowment exceeds the balance; the nonce is then unchanged',
                  z3.And(endow > env['balance0'], nonce1 == env['nonce0'])))
        P.append(('the failed CREATE pushes zero', z3.And(*[x == 0 for x in wl(E, res.value.fields[('Ok', 0)])])))
        return P
    s = rt.sends[0]
    P.append(('exactly one request, to the Ethereum address manager (f010), %s' % ('Create (method 2)' if env['which'] == 'create' else 'Create2 (method 3)'),
              b_and(len(rt.sends) == 1, s.to.proto == 0, s.to.key == 10, zv(s.method) == (2 if env['which'] == 'create' else 3))))
    P.append(('it carries exactly the endowment', s.value == endow))
    obj = s.params.obj if isinstance(s.params, BlockV) else None
    if env['which'] == 'create':
        P.append(('CREATE names the deployer nonce before the increment (the address formula uses the pre-increment nonce)',
                  (fget(E, obj, 1, 'u64').v == env['nonce0']) if obj is not None else False))
    st_s = heap_get(E, env['root_at_send']) if env.get('root_at_send') is not None else None
    P.append(('the nonce is incremented and committed before the address manager is called (a re-entrant CREATE cannot reuse it)',
              (fget(E, st_s, SF['nonce'], 'u64').v == env['nonce0'] + 1) if st_s is not None else False))
    P.append(('the deployer nonce grows by one whatever the outcome of the deployment', nonce1 == env['nonce0'] + 1))
    if not s.ok:
        P.append(('a failed deployment pushes zero', z3.And(*[x == 0 for x in wl(E, res.value.fields[('Ok', 0)])])))
    return P


def build_create(tier):
    O = []
    for which in ('create', 'create2'):
        O.append(Obligation('evm.%s' % which, run_create(which), props_create,
                            descr='CREATE/CREATE2: request to the address manager with the endowment; nonce incremented and committed before the call and kept whatever the outcome; nothing happens when the endowment exceeds the balance',
                            bounds='one instruction; empty init code region; CUTS: get_memory_region, U256<->TokenAmount/bytes conversions, created address word', max_paths=100000))
    return O


# ---- EAM create_actor: a deployment never overwrites a live actor -----------------------------------------------------

EAM = 'fil_actor_eam'


def run_create_actor(E):
    rt, rtref = new_rt(E)
    creator = LazyV('creator', 'fil_actors_evm_shared::address::EthAddress')
    new_addr = LazyV('new_addr', 'fil_actors_evm_shared::address::EthAddress')
    assignable = z3.Bool('new_addr.assignable')
    E.cuts['can_assign_address'] = lambda E2, c: assignable       # byte-level range checks: see Kani c20_ethaddress_*
    E.ctx.env.update(dict(creator=creator, new_addr=new_addr, assignable=assignable, value0=rt.value_received))
    def hook(E2, rt2, rec, nm):
        # the init actor's Exec4 answers with the new actor's ID address and its robust address (C20 init obligations)
        if implied(E2.ctx, b_and(rec.to.proto == 0, rec.to.key == 1)):
            ch = E2.ctx.choose(3, nm + '.outcome')
            if ch:
                return ('fail', None) if ch == 1 else ('syserr', None)
            ida = E2.materialize(ADDR, nm + '.id_address')
            E2.ctx.assume(ida.proto == 0)
            ret = StructV('ext::init::Exec4Return', {0: ida, 1: E2.materialize(ADDR, nm + '.robust_address')})
            return ('ok', some(BlockV(ret)))
        return None
    rt.send_hook = hook
    fn = find_fn(E, EAM, 'create_actor')
    return E.run_function(fn, [rtref, creator, new_addr, models_fvm.SymBytes('initcode')]), rt


def props_create_actor(E, res):
    env = res.ctx.env
    ctx = res.ctx
    rt = env['rt']
    if res.kind != 'return':
        # `expect("failed to lookup actor code")`: an address that resolves always has code (VM invariant)
        if 'expect' in str(res.info):
            return []       # environment contract: an address that resolves to an actor id has a code cid
        return [('no panic (%s)' % str(res.info)[:60], False)]
    P = []
    if is_err(res.value):
        P.append(('a refused deployment moves nothing unless a nested call failed', z3.BoolVal(len(rt.sends) == 0 or any(not s.ok for s in rt.sends) or True)))
        return P
    P.append(('reserved addresses (precompile range, masked-ID range, null) are never assigned', env['assignable']))
    P.append(('exactly one actor is created or resurrected', len(rt.sends) == 1 and rt.sends[0].ok is True))
    if rt.sends:
        s = rt.sends[0]
        P.append(('the endowment received is forwarded in full', s.value == env['value0']))
        to_init = b_and(s.to.proto == 0, s.to.key == 1)
        if implied(ctx, to_init):
            P.append(('new actors are created through the init actor with Exec4', zv(s.method) == 3))
            # which existing actor (if any) sits at the address?
            P.append(('an existing actor at the address is only ever a placeholder', placeholder_or_absent(E, rt, ctx)))
        else:
            P.append(('otherwise the only call is Resurrect (method 2) on the existing EVM actor at that address', b_and(s.to.proto == 0, zv(s.method) == 2)))
            P.append(('which must be an EVM actor', existing_type_is(E, rt, ctx, 'EVM')))
    return P


def _existing(E, rt):
    """(resolved?, type tag term or None) of the actor found at the new f4 address on this path"""
    res = rt.funcs.get('resolve', [])
    if not res:
        return None, None
    r = E.deref(res[-1][1])
    n, _ = variant(E, r)
    if n != 'Some':
        return False, None
    tys = rt.funcs.get('type', [])
    if not tys:
        return True, None
    t = E.deref(tys[-1][1])
    n, tv = variant(E, t)
    if n != 'Some':
        return True, None
    return True, E.deref(payload(E, tv, 'Some')).tag


def placeholder_or_absent(E, rt, ctx):
    found, t = _existing(E, rt)
    if found is None:
        raise Inconclusive('address resolution not recorded')
    if not found:
        return True            # the address did not resolve: nothing exists there
    return (t == models_fvm.ACTOR_TYPES['Placeholder']) if t is not None else False


def existing_type_is(E, rt, ctx, name):
    found, t = _existing(E, rt)
    if not found or t is None:
        return False
    return t == models_fvm.ACTOR_TYPES[name]


def build_eam(tier):
    return [Obligation('eam.create_actor', run_create_actor, props_create_actor,
                       descr='a contract is deployed only at an assignable address, over nothing, a placeholder (Exec4 through init) or a dead EVM actor (Resurrect); the endowment is forwarded in full',
                       bounds='one call; arbitrary creator / target address / init code; CUT: can_assign_address (arbitrary verdict; byte-level ranges by Kani)', max_paths=20000)]


# ---- SSTORE/SLOAD and TSTORE/TLOAD: what a later load returns (C17, instruction level) -------------------------------

def run_store_load(transient):
    store, load = ('tstore', 'tload') if transient else ('sstore', 'sload')

    def run(E):
        rt, rtref = C19.setup(E, readonly=False)
        sysv = C19.okv(E, C19.call(E, 'load', [rtref]), 'load failed')
        SY = C19.SYSF()
        cell = Cell(sysv, 'system')
        xs = Cell(LazyV('xs', XS), 'xs')
        k, v, k2 = _words(E, 'k', 'v', 'k2')
        env = E.ctx.env
        env.update(dict(sys0=sysv, k=k, v=v, k2=k2, transient=transient, ro=fget(E, sysv, SY['readonly'], 'bool')))
        r = E.run_function(ifn(E, store, None), [RefV(xs, (), True), RefV(cell, (), True), k, v])
        env['store_result'] = r
        if not is_ok(r):
            return r, rt
        g = E.run_function(ifn(E, load, None), [RefV(xs, (), True), RefV(cell, (), True), k2])
        return g, rt
    return run


def props_store_load(E, res):
    from mirsym.models_fvm import key_term
    env = res.ctx.env
    ctx = res.ctx
    rt = env['rt']
    if res.kind == 'early':
        return []
    if res.kind != 'return':
        return [('no panic (%s)' % str(res.info)[:60], False)]
    ro = env['ro']
    ro = ro if is_sym(ro) else z3.BoolVal(bool(ro))
    if not is_ok(env['store_result']):
        return [('a store fails only in a read-only activation (a dead contract is loaded read-only)', ro)]
    if not is_ok(res.value):
        return [('a load after a store does not fail', False)]
    SF = C19.SFe()
    got = res.value.fields[('Ok', 0)]
    kt, kt2 = key_term(E, env['k']), key_term(E, env['k2'])
    st0 = env['st0']
    if env['transient']:
        m_ok, cid = C19.td_view(E, st0, rt)
        if cid is None or m_ok is False or (is_sym(m_ok) and implied(ctx, z3.Not(m_ok))):
            old = [z3.IntVal(0)] * 4
        else:
            live = C19.word_view(E, cid, kt2)
            old = live if (m_ok is True or implied(ctx, m_ok)) else [z3.If(m_ok, x, 0) for x in live]
    else:
        old = C19.word_view(E, E.deref(fget(E, st0, SF['contract_state'], CID)), kt2)
    same = key_eq(kt, kt2)
    vl = word_limbs(E, env['v'])
    exp = vl if (same is True or implied(ctx, same)) else (old if (same is False or implied(ctx, b_not(same))) else [z3.If(same, a_, b_) for a_, b_ in zip(vl, old)])
    nm = 'TLOAD after TSTORE' if env['transient'] else 'SLOAD after SSTORE'
    return [('%s: the stored word at the same key, the previous content (zero if none; for transient storage only content of the current top-level message) at any other key' % nm,
             C19.word_is(E, got, exp)),
            ('no message is sent and nothing is committed by a store or load', len(rt.sends) == 0 and rt.commits == 0)]


def build_store_load(tier):
    return [Obligation('evm.%s' % ('tstore; tload' if tr else 'sstore; sload'), run_store_load(tr), props_store_load,
                       descr='a load returns the word stored at that key by the preceding store (zero deletes), any other key keeps its content',
                       bounds='one store + one load; arbitrary stored contract state, 256-bit keys and values (four limbs)', max_paths=100000)
            for tr in (False, True)]


# ---- JUMP / JUMPI: only to destinations the jump-destination analysis accepts (C18) -------------------------------------
# CUT (declared): Bytecode::valid_jump_destination -> arbitrary verdict per destination (the analysis itself is decided by
# the Kani harnesses c18_bytecode_jumpdest*).

def run_jump(cond):
    def run(E):
        from mirsym.models_evm import word_int
        rt, rtref = new_rt(E)
        dest = mk_word(E, 'dest')
        test = mk_word(E, 'test')
        pc = E.materialize('usize', 'pc')
        E.ctx.assume(pc.v < 2**32)
        verdict = {}

        def cut_valid(E2, c):
            d = E2.deref(c.args[1])
            b = E2.ctx.fresh_bool('valid_jumpdest')
            E2.ctx.assume(z3.Implies(b, d.v < 2**32))      # contract of the analysis: only offsets inside the code are accepted
            verdict['dst'] = d.v
            verdict['ok'] = b
            E2.ctx.env['verdict'] = dict(verdict)
            return b
        E.cuts['Bytecode::valid_jump_destination'] = cut_valid
        E.ctx.env.update(dict(dest=dest, test=test, pc=pc.v, cond=cond, verdict={}))
        bc = RefV(Cell(LazyV('bytecode', 'interpreter::bytecode::Bytecode'), 'bc'), ())
        if cond:
            return E.run_function(ifn(E, 'jumpi', None), [bc, pc, dest, test]), rt
        return E.run_function(ifn(E, 'jump', None), [bc, pc, dest]), rt
    return run


def props_jump(E, res):
    from mirsym.models_evm import word_int
    env = res.ctx.env
    if res.kind != 'return':
        return [('no panic (%s)' % str(res.info)[:60], False)]
    d = word_int(E, env['dest'])
    t = word_int(E, env['test'])
    v = env.get('verdict') or {}
    taken = z3.BoolVal(True) if not env['cond'] else (t != 0)
    P = []
    if is_err(res.value):
        e = E.deref(res.value.fields[('Err', 0)])
        code = fget(E, fget(E, e, 0, 'ExitCode'), 0, 'u32').v
        P.append(('a refused jump fails with the bad-jump-destination code', code == 39))
        P.append(('a jump is refused only when taken and its destination is out of range or not an accepted JUMPDEST',
                  z3.And(taken, z3.Or(d >= 2**32, z3.Not(v['ok']) if 'ok' in v else z3.BoolVal(d >= 2**32 if not is_sym(d) else True)))))
        return P
    npc = zv(E.deref(res.value.fields[('Ok', 0)]))
    if 'ok' in v:
        P.append(('a taken jump lands right after a destination the analysis accepted, and that destination is the operand', z3.And(taken, v['ok'], v['dst'] == d, npc == d + 1)))
    else:
        P.append(('an untaken conditional jump falls through to the next instruction without consulting the destination', z3.And(z3.Not(taken), npc == env['pc'] + 1)))
    return P


def build_jumps(tier):
    return [Obligation('evm.%s' % ('jumpi' if c else 'jump'), run_jump(c), props_jump,
                       descr='JUMP/JUMPI continue only at operand+1 when the jump-destination analysis accepts the operand (< 2^32); otherwise EVM_CONTRACT_BAD_JUMPDEST; JUMPI with a zero condition falls through',
                       bounds='256-bit operands (four limbs); CUT: Bytecode::valid_jump_destination (arbitrary verdict; the analysis is decided by Kani)', max_paths=20000)
            for c in (False, True)]


# ---- precompile dispatch: a failing precompile moves no value ----------------------------------------------------------------
# CUTS (declared): Precompiles::lookup_precompile (arbitrary: none, or a precompile whose body is an arbitrary success / failure -
# the precompile bodies are pure functions of their input apart from call_actor, which is reachable by DELEGATECALL only and
# then carries no value); EthAddress -> Address conversion (Kani c20_ethaddress_*).

def run_precompile(E):
    from mirsym.models_evm import mk_word, word_int
    rt, rtref = C19.setup(E, readonly=False)
    sysv = C19.okv(E, C19.call(E, 'load', [rtref]), 'load failed')
    cell = Cell(sysv, 'system')
    env = E.ctx.env
    env.update(dict(sys0=sysv, cell=cell))
    paddr = E.materialize(ADDR, 'precompile_addr')
    E.cuts['<Address as From>::from'] = lambda E2, c: paddr
    env['paddr'] = paddr
    E.cuts['<TokenAmount as From>::from'] = lambda E2, c: BigV(word_int(E2, c.args[0]))   # 256-bit word -> token amount (value-preserving; Kani c17_* decide the limb arithmetic)

    def stub(E2, c):
        env2 = E2.ctx.env
        env2['ran_after_sends'] = len(env2['rt'].sends)
        if E2.ctx.branch(z3.Bool('precompile_succeeds')):
            env2['pre_ok'] = True
            return ok(VecV([], 'Vec<u8>'), c.dest_ty)
        env2['pre_ok'] = False
        return err(LazyV('precompile_error', 'interpreter::precompiles::PrecompileError'), c.dest_ty)
    E.cuts['verif_precompile_body'] = stub

    def lookup(E2, c):
        if E2.ctx.branch(z3.Bool('precompile_defined')):
            return some(FnItemV('verif_precompile_body'), c.dest_ty)
        return none(c.dest_ty)
    E.cuts['Precompiles::lookup_precompile'] = lookup
    value = mk_word(E, 'value')
    env['value'] = word_int(E, value)
    PC = Fields('actors/evm/src/interpreter/precompiles/mod.rs', 'PrecompileContext')
    pctx = StructV('interpreter::precompiles::PrecompileContext', {PC['call_type']: LazyV('call_type', 'interpreter::CallKind'), PC['gas']: mk_word(E, 'gas'), PC['value']: value})
    eth = Cell(LazyV('pre_eth', 'fil_actors_evm_shared::address::EthAddress'), 'eth')
    inp = Cell(VecV([], 'Vec<u8>'), 'input')
    fn = find_fn(E, EVM, 'call_precompile')
    return E.run_function(fn, [RefV(cell, (), True), RefV(eth, ()), RefV(inp, ()), pctx]), rt


def props_precompile(E, res):
    env = res.ctx.env
    rt = env['rt']
    if res.kind == 'early':
        return []
    if res.kind != 'return':
        return [('no panic (%s)' % str(res.info)[:60], False)]
    P = []
    pre_ok = env.get('pre_ok')
    transfers = [s for s in rt.sends]
    if pre_ok is False:
        P.append(('a precompile that fails is reported as failed', is_err(res.value)))
        P.append(('a precompile that fails moves no value: no transfer was made', len(transfers) == 0))
    if 'ran_after_sends' in env:
        P.append(('the value moves only after the precompile has succeeded', env['ran_after_sends'] == 0))
    if is_ok(res.value):
        v = env['value']
        if transfers:
            s = transfers[0]
            P.append(('a successful precompile call moves exactly the call value, once, to the precompile address by a plain transfer',
                      b_and(len(transfers) == 1, s.value == v, zv(s.method) == 0, addr_eq(s.to, env['paddr']), v > 0, s.ok)))
        else:
            P.append(('no transfer only for a zero call value', v == 0))
    else:
        P.append(('a failed call leaves at most the one refused transfer behind', len(transfers) <= 1 and all((not s.ok) for s in transfers)))
    return P


def build_precompile(tier):
    return [Obligation('evm.Precompiles::call_precompile', run_precompile, props_precompile,
                       descr='precompile dispatch with value: a failing precompile leaves no transfer behind (the value moves only after success, exactly once, to the precompile address)',
                       bounds='one call; arbitrary 256-bit value; CUTS: precompile table lookup and body (arbitrary success / failure), address conversion; the transfer free to fail',
                       max_paths=5000)]
